//go:build verif

package parquet

import (
	"bytes"
	"io"
)

// C08.K0 on whole files: seeks and reads on the readers of a real file (real
// Thrift page headers, offset index present or not, several pages per chunk,
// several row groups, a repeated column whose rows span several values): after
// SeekToRow(k) the rows come back from row k on, complete and in order, for
// every history in the bound. Reader kinds: the rows of one row group, the
// generic file reader across row groups, and the pages of one column chunk.

type verifRecL struct {
	ID   int64   `parquet:"id"`
	Tags []int32 `parquet:"tags"`
	Name string  `parquet:"name,plain"`
}

func verifRowsL(n int) []verifRecL {
	rows := make([]verifRecL, n)
	for i := range rows {
		rows[i] = verifRecL{ID: int64(100 + i), Name: string(rune('a' + i))}
		for j := 0; j < i%3; j++ {
			rows[i].Tags = append(rows[i].Tags, int32(10*i+j))
		}
	}
	rows[1].Name = vString("name", 1)
	return rows
}

func verifSameL(a, b *verifRecL) bool {
	if a.ID != b.ID || len(a.Tags) != len(b.Tags) {
		return false
	}
	for i := range a.Tags {
		if a.Tags[i] != b.Tags[i] {
			return false
		}
	}
	return a.Name == b.Name
}

// verifFixedL: harnesses that explore something else fix the file layout
// (one page per row, page index read) instead of case-splitting over it.
var verifFixedL bool

func verifPickL(tag string, hi int) int {
	if verifFixedL {
		return 0
	}
	return vChoose(tag, 0, hi)
}

func verifOpenL(rows []verifRecL) (*File, bool) {

	vUnwind(1 << 16)
	var opts []WriterOption
	switch verifPickL("layout", 2) {
	case 0:
		opts = append(opts, PageBufferSize(1)) // one page per row
	case 1:
		opts = append(opts, PageBufferSize(1), MaxRowsPerRowGroup(2)) // and three row groups
	case 2:
		opts = append(opts, DataPageVersion(1), PageBufferSize(40))
	}
	if verifFixedL {
		// no min/max for the column with the symbolic byte: the comparisons that
		// compute them would fork every path five ways
		opts = append(opts, SkipPageBounds("name"))
	}
	buf := new(bytes.Buffer)
	w := NewGenericWriter[verifRecL](buf, opts...)
	for i := range rows {
		if _, err := w.Write(rows[i : i+1]); err != nil {
			vAssert(false, "rows are accepted")
			return nil, false
		}
	}
	if err := w.Close(); err != nil {
		vAssert(false, "file closes")
		return nil, false
	}
	data := buf.Bytes()
	var ropts []FileOption
	if verifPickL("skipPageIndex", 1) == 1 {
		ropts = append(ropts, SkipPageIndex(true))
	}
	f, err := OpenFile(bytes.NewReader(data), int64(len(data)), ropts...)
	if err != nil {
		vAssert(false, "file opens")
		return nil, false
	}
	return f, true
}

func VerifH_C08_wholeFileSeekRead() {
	vUnwind(1 << 16)
	vAbstractCRCFixedWidth() // page checksums are not the subject
	const n = 5
	rows := verifRowsL(n)
	f, ok := verifOpenL(rows)
	if !ok {
		return
	}
	r := NewGenericReader[verifRecL](f)
	defer r.Close()
	next := 0 // the row the reader is positioned at
	for op := 0; op < 2+vTier(); op++ {
		if vChoose("op", 0, 1) == 0 {
			k := vChoose("seekTo", 0, n)
			if err := r.SeekToRow(int64(k)); err != nil {
				vAssert(false, "seek inside the file succeeds")
				return
			}
			next = k
			continue
		}
		batch := make([]verifRecL, vChoose("batch", 1, 2))
		got, err := r.Read(batch)
		vAssert(err == nil || err == io.EOF, "read reports no error")
		want := len(batch)
		if next+want > n {
			want = n - next
		}
		vAssert(got == want, "read returns the rows that remain, up to the batch size")
		for i := 0; i < got && next+i < n; i++ {
			vAssert(verifSameL(&batch[i], &rows[next+i]), "rows come back from the target row on, complete and in order")
		}
		if want < len(batch) {
			vAssert(err == io.EOF, "the end of the file is reported")
		}
		next += got
	}
	vCover("history")
}

// the rows of one row group and the pages of one column across row groups
func VerifH_C08_wholeFileRowGroupAndColumnSeeks() {
	vUnwind(1 << 16)
	vAbstractCRCFixedWidth() // page checksums are not the subject
	const n = 5
	rows := verifRowsL(n)
	f, ok := verifOpenL(rows)
	if !ok {
		return
	}
	if vChoose("reader", 0, 1) == 0 {
		rg := f.RowGroups()[0]
		m := int(rg.NumRows())
		rr := rg.Rows()
		defer rr.Close()
		schema := SchemaOf(verifRecL{})
		next := 0
		for op := 0; op < 2+vTier(); op++ {
			if vChoose("op", 0, 1) == 0 {
				k := vChoose("seekTo", 0, m)
				if err := rr.SeekToRow(int64(k)); err != nil {
					vAssert(false, "seek inside the row group succeeds")
					return
				}
				next = k
				continue
			}
			batch := make([]Row, vChoose("batch", 1, 2))
			got, err := rr.ReadRows(batch)
			vAssert(err == nil || err == io.EOF, "read reports no error")
			want := len(batch)
			if next+want > m {
				want = m - next
			}
			vAssert(got == want, "read returns the rows that remain, up to the batch size")
			for i := 0; i < got && next+i < m; i++ {
				var v verifRecL
				if err := schema.Reconstruct(&v, batch[i]); err != nil {
					vAssert(false, "row re-assembles")
					return
				}
				vAssert(verifSameL(&v, &rows[next+i]), "rows come back from the target row on, complete and in order")
			}
			next += got
		}
		vCover("row group rows")
		return
	}
	// pages of the id column over all row groups: after SeekToRow(k) the next
	// page starts with row k (pages may be sliced to do so)
	pages := f.Root().Column("id").Pages()
	defer pages.Close()
	next := 0
	for op := 0; op < 2+vTier(); op++ {
		if vChoose("op", 0, 1) == 0 {
			k := vChoose("seekTo", 0, n-1)
			if err := pages.SeekToRow(int64(k)); err != nil {
				vAssert(false, "seek inside the column succeeds")
				return
			}
			next = k
			continue
		}
		p, err := pages.ReadPage()
		if next >= n {
			vAssert(err == io.EOF, "the end of the column is reported")
			continue
		}
		if err != nil {
			vAssert(false, "page is read")
			return
		}
		vals := make([]Value, 8)
		k, _ := p.Values().ReadValues(vals)
		vAssert(k >= 1 && int64(k) == p.NumValues(), "page yields its values")
		for i := 0; i < k && next+i < n; i++ {
			vAssert(vals[i].Int64() == rows[next+i].ID, "pages continue at the target row, across row groups")
		}
		next += k
		Release(p)
	}
	vCover("column pages")
}

// After Reset the reader is at row 0 again, whatever it had read before; a
// SeekToRow that follows (including to the row the reader was at before the
// Reset) positions it like on a fresh reader.
func VerifH_C08_seekAfterReset() {
	vUnwind(1 << 16)
	vAbstractCRCFixedWidth() // page checksums are not the subject
	const n = 5
	rows := verifRowsL(n)
	f, ok := verifOpenL(rows)
	if !ok {
		return
	}
	r := NewGenericReader[verifRecL](f)
	defer r.Close()
	first := make([]verifRecL, vChoose("readBeforeReset", 0, 3))
	if len(first) > 0 {
		if got, err := r.Read(first); got != len(first) || (err != nil && err != io.EOF) {
			vAssert(false, "rows are read before the reset")
			return
		}
	}
	r.Reset()
	next := 0
	if vChoose("seekAfterReset", 0, 1) == 1 {
		k := vChoose("seekTo", 0, n-1)
		if err := r.SeekToRow(int64(k)); err != nil {
			vAssert(false, "seek after Reset succeeds")
			return
		}
		next = k
	}
	out := make([]verifRecL, 2)
	got, err := r.Read(out)
	vAssert(err == nil || err == io.EOF, "read after Reset reports no error")
	want := 2
	if next+want > n {
		want = n - next
	}
	vAssert(got == want, "read after Reset returns the rows that remain")
	for i := 0; i < got && next+i < n; i++ {
		vAssert(verifSameL(&out[i], &rows[next+i]), "after Reset and SeekToRow(k) rows come back from row k on")
	}
	vCover("reset")
}

// Forward-only seeking on converted row readers (ConvertRowReader wraps any
// RowReader in a seeker that skips rows while reading): after SeekToRow(k) the
// rows come back from row k on, whatever the batch size and however the source
// chunks its rows.

type verifSliceRows struct {
	rows  []Row
	chunk int
	pos   int
}

func (r *verifSliceRows) ReadRows(out []Row) (int, error) {
	n := 0
	for n < len(out) && n < r.chunk && r.pos < len(r.rows) {
		out[n] = append(out[n][:0], r.rows[r.pos]...)
		r.pos++
		n++
	}
	if r.pos == len(r.rows) {
		return n, io.EOF
	}
	return n, nil
}

func VerifH_C08_forwardSeekOnConvertedRows() {
	vUnwind(4096)
	const n = 5
	schema := SchemaOf(verifRecM{})
	var src []Row
	keys := make([]int64, n)
	for i := 0; i < n; i++ {
		keys[i] = vI64("key")
		src = append(src, schema.Deconstruct(nil, &verifRecM{Key: keys[i], Tag: int32(i)}))
	}
	conv, err := Convert(schema, schema)
	if err != nil {
		vAssert(false, "identity conversion")
		return
	}
	rr := ConvertRowReader(&verifSliceRows{rows: src, chunk: vChoose("sourceChunk", 1, 4)}, conv)
	seeker, ok := rr.(RowSeeker)
	if !ok {
		vAssert(false, "converted rows can seek")
		return
	}
	next := 0
	for op := 0; op < 3; op++ {
		if vChoose("op", 0, 1) == 0 {
			k := vChoose("seekTo", next, n) // forward only
			if err := seeker.SeekToRow(int64(k)); err != nil {
				vAssert(false, "forward seek succeeds")
				return
			}
			next = k
			continue
		}
		batch := make([]Row, vChoose("batch", 1, 4))
		got, err := rr.ReadRows(batch)
		vAssert(err == nil || err == io.EOF, "read reports no error")
		vAssert(next+got <= n, "no more rows than remain")
		for i := 0; i < got && next+i < n; i++ {
			vAssert(len(batch[i]) == 2 && batch[i][0].Int64() == keys[next+i] && batch[i][1].Int32() == int32(next+i), "rows come back from the target row on")
		}
		if got == 0 && err == nil {
			vAssert(false, "a read makes progress or reports the end")
		}
		next += got
	}
	vCover("forward seek")
}

// Row-range views (the slices merge refinement cuts out of a row group): a view
// [off, off+length) over a real file's row group behaves like a row group of
// its own: after SeekToRow(k) reads return rows off+k, off+k+1, ... and end at
// the end of the view, for every history of seeks and reads.
func VerifH_C08_rowRangeViewSeeks() {
	vUnwind(1 << 16)
	vAbstractCRCFixedWidth() // page checksums are not the subject
	verifFixedL = true
	const n = 5
	rows := verifRowsL(n)
	f, ok := verifOpenL(rows)
	if !ok {
		return
	}
	base := f.RowGroups()[0]
	total := int(base.NumRows())
	off := vChoose("viewOffset", 0, 2)
	length := total - off - vChoose("cutTail", 0, 1)
	view := newRowRangeRowGroup(base, int64(off), int64(length))
	vAssert(view.NumRows() == int64(length), "the view reports its length")
	rr := view.Rows()
	defer rr.Close()
	schema := SchemaOf(verifRecL{})
	next := 0
	for op := 0; op < 3; op++ {
		if vChoose("op", 0, 1) == 0 {
			k := vChoose("seekTo", 0, length)
			if err := rr.SeekToRow(int64(k)); err != nil {
				vAssert(false, "seek inside the view succeeds")
				return
			}
			next = k
			continue
		}
		batch := make([]Row, vChoose("batch", 1, 2))
		got, err := rr.ReadRows(batch)
		vAssert(err == nil || err == io.EOF, "read reports no error")
		want := len(batch)
		if next+want > length {
			want = length - next
		}
		vAssert(got == want, "read returns the rows that remain in the view, up to the batch size")
		for i := 0; i < got && next+i < length; i++ {
			var v verifRecL
			if schema.Reconstruct(&v, batch[i]) != nil {
				vAssert(false, "row re-assembles")
				return
			}
			vAssert(verifSameL(&v, &rows[off+next+i]), "the view returns its own rows from the target on")
		}
		next += got
	}
	vCover("range view")
}

// The (deprecated) Reader mixes two cursors: typed Read(&row) and ReadRows. Any
// history of SeekToRow, Read and ReadRows returns the rows in file order from
// the last seek target on.
func VerifH_C08_readerMixedReads() {
	vUnwind(1 << 16)
	vAbstractCRCFixedWidth() // page checksums are not the subject
	verifFixedL = true
	const n = 5
	rows := verifRowsL(n)
	f, ok := verifOpenL(rows)
	if !ok {
		return
	}
	r := NewReader(f, SchemaOf(verifRecL{}))
	defer r.Close()
	schema := SchemaOf(verifRecL{})
	next := 0
	for op := 0; op < 3; op++ {
		switch vChoose("op", 0, 2) {
		case 0:
			k := vChoose("seekTo", 0, n-1)
			if err := r.SeekToRow(int64(k)); err != nil {
				vAssert(false, "seek succeeds")
				return
			}
			next = k
		case 1:
			var v verifRecL
			err := r.Read(&v)
			if next >= n {
				vAssert(err == io.EOF, "the end of the file is reported")
				continue
			}
			vAssert(err == nil && verifSameL(&v, &rows[next]), "typed Read returns the next row")
			next++
		case 2:
			batch := make([]Row, vChoose("batch", 1, 2))
			got, err := r.ReadRows(batch)
			vAssert(err == nil || err == io.EOF, "ReadRows reports no error")
			want := len(batch)
			if next+want > n {
				want = n - next
			}
			vAssert(got == want, "ReadRows returns the rows that remain, up to the batch size")
			for i := 0; i < got && next+i < n; i++ {
				var v verifRecL
				if schema.Reconstruct(&v, batch[i]) != nil {
					vAssert(false, "row re-assembles")
					return
				}
				vAssert(verifSameL(&v, &rows[next+i]), "ReadRows continues where the previous read of either kind stopped")
			}
			next += got
		}
	}
	vCover("mixed reads")
}

//go:build verif

package parquet

import (
	"reflect"

	"github.com/parquet-go/parquet-go/sparse"
)

// C01.K1 / C03.K1: the typed write path of an optional non-pointer field splits
// the rows into runs of zero (null) and non-zero values. Every row must be
// delivered exactly once, in order, with definition level d+1 iff it is non-zero.

type verifRun struct {
	first, n int
	def      byte
}

func verifScanOptional(t reflect.Type, rows sparse.Array, base uintptr, stride uintptr) []verifRun {
	var runs []verifRun
	rec := func(columns []ColumnBuffer, levels columnLevels, r sparse.Array) {
		first := -1
		if r.Len() > 0 {
			first = int((uintptr(r.Index(0)) - base) / stride)
		}
		runs = append(runs, verifRun{first, r.Len(), levels.definitionLevel})
	}
	fn := writeRowsFuncOfOptional(t, nil, nil, rec)
	fn(nil, columnLevels{definitionLevel: 1}, rows)
	return runs
}

func verifCheckRuns(runs []verifRun, n int, nonZero []bool) {
	next := 0
	conds := []bool{}
	for _, r := range runs {
		if r.n == 0 {
			continue
		}
		vAssert(r.first == next, "runs are contiguous and in order")
		vAssert(r.n > 0 && r.first+r.n <= n, "run stays within the rows")
		if r.first != next || r.first+r.n > n {
			return
		}
		for i := r.first; i < r.first+r.n; i++ {
			conds = append(conds, (r.def == 2) == nonZero[i])
		}
		vAssert(r.def == 1 || r.def == 2, "definition level is d or d+1")
		next = r.first + r.n
	}
	vAssert(next == n, "every row is delivered")
	vAssert(vAll(conds...), "a row is non-null exactly when its value is non-zero")
}

func VerifH_C01_nullScanInt32() {
	vUnwind(200)
	n := vChoose("n", 1, 6+4*vTier())
	vals := make([]int32, n)
	nz := make([]bool, n)
	for i := range vals {
		vals[i] = vI32("v")
		nz[i] = vals[i] != 0
	}
	rows := makeArrayFromSlice(vals)
	runs := verifScanOptional(reflect.TypeOf(int32(0)), rows, uintptr(rows.Index(0)), 4)
	verifCheckRuns(runs, n, nz)
	vCover("scanned")
}

// windows that cross the 64-row word boundary of the null bitmap: rows 0..w-1
// are a concrete prefix (all null / all set / alternating), then symbolic rows.
func VerifH_C01_nullScanWordBoundary() {
	vUnwind(400)
	prefix := 60 + vChoose("prefixExtra", 0, 3)
	pat := vChoose("pattern", 0, 2)
	k := vChoose("window", 2, 4+2*vTier())
	n := prefix + k
	vals := make([]int64, n)
	nz := make([]bool, n)
	for i := 0; i < prefix; i++ {
		switch pat {
		case 1:
			vals[i] = 7
		case 2:
			vals[i] = int64(i % 2)
		}
		nz[i] = vals[i] != 0
	}
	for i := prefix; i < n; i++ {
		vals[i] = vI64("v")
		nz[i] = vals[i] != 0
	}
	rows := makeArrayFromSlice(vals)
	runs := verifScanOptional(reflect.TypeOf(int64(0)), rows, uintptr(rows.Index(0)), 8)
	verifCheckRuns(runs, n, nz)
	vCover("scanned")
}

// other element kinds selected by nullIndexFuncOf
func VerifH_C03_nullScanKinds() {
	vUnwind(200)
	n := vChoose("n", 1, 4)
	kind := vChoose("kind", 0, 3)
	nz := make([]bool, n)
	var runs []verifRun
	switch kind {
	case 0:
		v := make([]float64, n)
		for i := range v {
			v[i] = vF64("f")
			nz[i] = v[i] != 0 // -0.0 counts as zero: documented Go mapping
		}
		rows := makeArrayFromSlice(v)
		runs = verifScanOptional(reflect.TypeOf(float64(0)), rows, uintptr(rows.Index(0)), 8)
	case 1:
		v := make([]bool, n)
		for i := range v {
			v[i] = vBool("b")
			nz[i] = v[i]
		}
		rows := makeArrayFromSlice(v)
		runs = verifScanOptional(reflect.TypeOf(false), rows, uintptr(rows.Index(0)), 1)
	case 2:
		v := make([][16]byte, n)
		for i := range v {
			v[i][3], v[i][15] = vU8("x"), vU8("y")
			nz[i] = v[i][3] != 0 || v[i][15] != 0
		}
		rows := makeArrayFromSlice(v)
		runs = verifScanOptional(reflect.TypeOf([16]byte{}), rows, uintptr(rows.Index(0)), 16)
	case 3:
		v := make([]string, n)
		for i := range v {
			v[i] = vString("s", vChoose("len", 0, 1))
			nz[i] = len(v[i]) != 0
		}
		rows := makeArrayFromSlice(v)
		runs = verifScanOptional(reflect.TypeOf(""), rows, uintptr(rows.Index(0)), 16)
	}
	verifCheckRuns(runs, n, nz)
	vCover("scanned")
}

//go:build verif

package parquet

import (
	"errors"
	"io"

	"github.com/parquet-go/parquet-go/format"
)

// C08.K4 / C13.K2: the pages of a file-level column (columnPages) chain the
// page readers of all row groups. The per-row-group readers are replaced by
// models keyed by the reader's identity; each delivers one-row pages.
//
//verif:replace (*FilePages).ReadPage => verifCPRead
//verif:replace (*FilePages).SeekToRow => verifCPSeek

type verifCPState struct {
	rows, pos int64
	first     int64 // global index of the first row of this row group
	failAt    int64 // -1: never; otherwise reading the row at this position fails
}

var verifCP []*verifCPState

func verifCPRead(f *FilePages) (Page, error) {
	st := verifCP[f.bufferSize]
	if st.pos >= st.rows {
		return nil, io.EOF
	}
	if st.pos == st.failAt {
		return nil, ErrCorrupted
	}
	p := &verifModelPage2{first: st.first + st.pos, n: 1}
	st.pos++
	return p, nil
}

func verifCPSeek(f *FilePages, row int64) error {
	st := verifCP[f.bufferSize]
	if row < 0 || row > st.rows {
		return ErrSeekOutOfRange
	}
	st.pos = row
	return nil
}

type verifModelPage2 struct {
	Page
	first, n int64
}

func (p *verifModelPage2) NumRows() int64 { return p.n }

func VerifH_C08_columnPagesAcrossRowGroups() {
	vUnwind(64)
	G := vChoose("rowGroups", 1, 3)
	cp := &columnPages{pages: make([]FilePages, G)}
	verifCP = make([]*verifCPState, G)
	var total int64
	for i := 0; i < G; i++ {
		rows := int64(vChoose("rows", 1, 2))
		verifCP[i] = &verifCPState{rows: rows, first: total, failAt: -1}
		cp.pages[i].bufferSize = i
		cp.pages[i].chunk = &FileColumnChunk{rowGroup: &format.RowGroup{NumRows: rows}}
		total += rows
	}
	corrupt := vChoose("corruptRowGroup", -1, G-1)
	if corrupt >= 0 {
		verifCP[corrupt].failAt = int64(vChoose("corruptRow", 0, int(verifCP[corrupt].rows)-1))
	}
	expect := int64(0)
	for op := 0; op < 4; op++ {
		if vChoose("op", 0, 1) == 0 {
			k := int64(vChoose("seek", 0, int(total)-1))
			if err := cp.SeekToRow(k); err != nil {
				vAssert(false, "seek within the column succeeds")
				return
			}
			expect = k
			continue
		}
		p, err := cp.ReadPage()
		// is the expected row the corrupted one?
		isBad := false
		if corrupt >= 0 {
			isBad = expect == verifCP[corrupt].first+verifCP[corrupt].failAt
		}
		if expect >= total {
			vAssert(err == io.EOF, "EOF after the last row group")
			return
		}
		if isBad {
			vAssert(err != nil && errors.Is(err, ErrCorrupted), "an error from a row group's page reader is reported, not skipped")
			return
		}
		vAssert(err == nil && p != nil, "reading succeeds")
		if err != nil || p == nil {
			return
		}
		vAssert(p.(*verifModelPage2).first == expect, "pages continue at the expected row across row groups")
		expect++
	}
	vCover("history")
}

// Native re-enactment on a real file: row groups with the model's row counts,
// one row per page, the counterexample's history replayed literally through
// File.Root().Column(..).Pages(); the corrupt row's page gets a flipped byte.
func VerifS_C08_columnPagesAcrossRowGroups() {
	type row struct{ A int64 }
	ng, _ := vReplayVal("rowGroups", 0)
	buf := new(bytesBuffer)
	w := NewGenericWriter[row](buf, DataPageVersion(2))
	var sizes []int64
	var total int64
	for g := 0; g < int(ng); g++ {
		n, _ := vReplayVal("rows", g)
		for k := 0; k < int(n); k++ {
			if _, err := w.Write([]row{{A: total}}); err != nil {
				vAssert(false, "scenario: write")
				return
			}
			if err := w.ColumnWriters()[0].Flush(); err != nil {
				vAssert(false, "scenario: page flush")
				return
			}
			total++
		}
		sizes = append(sizes, int64(n))
		if err := w.Flush(); err != nil {
			vAssert(false, "scenario: row group flush")
			return
		}
	}
	if err := w.Close(); err != nil {
		vAssert(false, "scenario: close")
		return
	}
	data := buf.b
	f, err := OpenFile(newBytesReaderAt(data), int64(len(data)))
	if err != nil {
		vAssert(false, "scenario: open")
		return
	}
	corruptRG, _ := vReplayVal("corruptRowGroup", 0)
	badRow := int64(-1)
	if int64(corruptRG) >= 0 && int64(corruptRG) < int64(len(sizes)) {
		cr, _ := vReplayVal("corruptRow", 0)
		oi, err := f.RowGroups()[int64(corruptRG)].ColumnChunks()[0].OffsetIndex()
		if err != nil || int(cr) >= oi.NumPages() {
			vAssert(false, "scenario: offset index")
			return
		}
		end := oi.Offset(int(cr)) + oi.CompressedPageSize(int(cr))
		data = append([]byte(nil), data...)
		data[end-1] ^= 0x10
		f, err = OpenFile(newBytesReaderAt(data), int64(len(data)))
		if err != nil {
			vCover("scenario: corruption detected at open")
			return
		}
		var first int64
		for g := int64(0); g < int64(corruptRG); g++ {
			first += sizes[g]
		}
		badRow = first + int64(cr)
	}
	pages := f.Root().Column("A").Pages()
	defer pages.Close()
	expect := int64(0)
	seeks := 0
	for op := 0; ; op++ {
		kind, ok := vReplayVal("op", op)
		if !ok {
			break
		}
		if kind == 0 {
			k, _ := vReplayVal("seek", seeks)
			seeks++
			if err := pages.SeekToRow(int64(k)); err != nil {
				vAssert(false, "scenario: seek within the column succeeds")
				return
			}
			expect = int64(k)
			continue
		}
		pg, err := pages.ReadPage()
		if expect >= total {
			vAssert(err == io.EOF, "EOF after the last row group")
			return
		}
		if expect == badRow {
			vAssert(err != nil && errors.Is(err, ErrCorrupted), "an error from a row group's page reader is reported, not skipped")
			return
		}
		if err != nil || pg == nil {
			vAssert(false, "scenario: reading succeeds")
			return
		}
		vals := make([]Value, 1)
		n, _ := pg.Values().ReadValues(vals)
		Release(pg)
		vAssert(n == 1 && vals[0].Int64() == expect, "pages continue at the expected row across row groups")
		expect++
	}
	vCover("scenario")
}

type bytesBuffer struct{ b []byte }

func (w *bytesBuffer) Write(p []byte) (int, error) { w.b = append(w.b, p...); return len(p), nil }

type bytesReaderAt struct{ b []byte }

func newBytesReaderAt(b []byte) *bytesReaderAt { return &bytesReaderAt{b} }
func (r *bytesReaderAt) ReadAt(p []byte, off int64) (int, error) {
	if off < 0 || off >= int64(len(r.b)) {
		return 0, io.EOF
	}
	n := copy(p, r.b[off:])
	if n < len(p) {
		return n, io.EOF
	}
	return n, nil
}

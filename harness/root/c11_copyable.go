//go:build verif

package parquet

import (
	"github.com/parquet-go/parquet-go/compress"
	"github.com/parquet-go/parquet-go/encoding"
	"github.com/parquet-go/parquet-go/format"
)

// C11.K1: whenever the verbatim-copy fast path declares a source column chunk
// copyable, the chunk really matches the destination column's configuration
// (same physical type, codec, data page version, value encoding on every data
// page, dictionary presence, no encryption on either side, page index present).
// The source metadata is symbolic; the reference predicate below is written
// from the property's list, not from the code.
func VerifH_C11_copyEligibility() {
	vUnwind(32)
	types := []Type{Int32Type, Int64Type, ByteArrayType}
	codecs := []compress.Codec{&Uncompressed, &Snappy, &Zstd}
	encs := []encoding.Encoding{&Plain, &RLEDictionary, &DeltaBinaryPacked}
	dst := &ColumnWriter{
		columnType:  types[vChoose("dstType", 0, 2)],
		compression: codecs[vChoose("dstCodec", 0, 2)],
		encoding:    encs[vChoose("dstEncoding", 0, 2)],
	}
	wantDict := vChoose("dstDictionary", 0, 1) == 1
	if wantDict {
		dst.dictionary = Int32Type.NewDictionary(0, 0, encoding.Int32Values(nil))
	}
	dst.header.page.Type = format.DataPage
	if vChoose("dstV2", 0, 1) == 1 {
		dst.header.page.Type = format.DataPageV2
	}
	if vChoose("dstEncrypted", 0, 1) == 1 {
		dst.encKey = []byte("0123456789abcdef")
	}
	src := &FileColumnChunk{chunk: &format.ColumnChunk{}}
	if vChoose("srcEncrypted", 0, 1) == 1 {
		src.decryptionKey = []byte("0123456789abcdef")
	}
	md := &src.chunk.MetaData
	md.Type = format.Type(vI32("srcType"))
	md.Codec = format.CompressionCodec(vI32("srcCodec"))
	src.chunk.ColumnIndexOffset = vI64("columnIndexOffset")
	src.chunk.OffsetIndexOffset = vI64("offsetIndexOffset")
	n := vChoose("stats", 0, 2)
	stats := make([]format.PageEncodingStats, n)
	for i := range stats {
		stats[i] = format.PageEncodingStats{
			PageType: format.PageType(vChoose("pageType", 0, 3)),
			Encoding: format.Encoding(vI32("encoding")),
			Count:    1,
		}
	}
	md.EncodingStats = stats

	got := columnChunkIsCopyable(dst, src)

	// reference predicate
	ref := []bool{
		src.decryptionKey == nil, dst.encKey == nil,
		md.Type == format.Type(dst.columnType.Kind()),
		md.Codec == dst.compression.CompressionCodec(),
		src.chunk.ColumnIndexOffset != 0, src.chunk.OffsetIndexOffset != 0,
		n > 0,
	}
	sawDict := false
	for _, s := range stats {
		switch s.PageType {
		case format.DictionaryPage:
			sawDict = true
		case format.DataPage, format.DataPageV2:
			ref = append(ref, s.PageType == dst.header.page.Type, s.Encoding == dst.encoding.Encoding())
		default:
			ref = append(ref, false)
		}
	}
	ref = append(ref, sawDict == wantDict)
	vAssert(vImplies(got, vAll(ref...)), "a chunk declared copyable matches the destination configuration")
	vAssert(vImplies(vAll(ref...), got), "a matching chunk (no bloom filter requested) is declared copyable")
	vCover("decided")
}

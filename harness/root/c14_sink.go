//go:build verif

package parquet

import (
	"bytes"
	"errors"
	"io"
)

// C14.K1: the writer's sink wrapper. A model sink accepts bytes up to a fault
// offset, then fails (error, or short write without error on the first faulty
// call and an error afterwards). Whatever the sequence of Write / WriteString /
// ReadFrom calls, the tracked offset equals the bytes the sink accepted and a
// refused byte surfaces as a non-nil error from some call.

var errVerifSink = errors.New("model sink: write failed")

type verifSink struct {
	accepted  int
	limit     int  // bytes accepted before the fault
	shortOnly bool // first faulty call returns n<len with a nil error (a contract-breaking short write)
	faulted   bool
	refused   bool
	transient bool // only the first faulty call fails; afterwards the sink accepts everything again
	recovered bool
	record    bool   // keep the accepted bytes
	data      []byte
}

func (s *verifSink) Write(p []byte) (int, error) {
	if s.recovered {
		s.accepted += len(p)
		if s.record {
			s.data = append(s.data, p...)
		}
		return len(p), nil
	}
	room := s.limit - s.accepted
	if room >= len(p) {
		s.accepted += len(p)
		if s.record {
			s.data = append(s.data, p...)
		}
		return len(p), nil
	}
	if room < 0 {
		room = 0
	}
	s.accepted += room
	if s.record {
		s.data = append(s.data, p[:room]...)
	}
	s.refused = true
	if s.transient {
		s.recovered = true
	}
	if s.shortOnly && !s.faulted {
		s.faulted = true
		return room, nil
	}
	s.faulted = true
	return room, errVerifSink
}

func VerifH_C14_sinkFaults() {
	vUnwind(64)
	sink := &verifSink{limit: vChoose("faultAt", 0, 9), shortOnly: vChoose("shortWrite", 0, 1) == 1}
	var w offsetTrackingWriter
	w.Reset(sink)
	sawErr := false
	offered := 0
	for op := 0; op < 3; op++ {
		n := vChoose("len", 0, 4)
		data := vBytes("data", n)
		var got int
		var err error
		switch vChoose("op", 0, 2) {
		case 0:
			got, err = w.Write(data)
		case 1:
			got, err = w.WriteString(string(data))
		case 2:
			var n64 int64
			n64, err = w.ReadFrom(bytes.NewReader(data))
			got = int(n64)
		}
		offered += n
		// the wrapper reports a refusal either as an error or, for a sink that
		// short-writes without an error, as a short count its callers turn into
		// io.ErrShortWrite (bufio.Writer, io.Copy)
		if err != nil || got < n {
			sawErr = true
		}
		vAssert(got >= 0 && got <= n, "reported count within the data offered")
		vAssert(w.offset == int64(sink.accepted), "tracked offset equals the bytes the sink accepted")
	}
	vAssert(vImplies(sink.refused, sawErr), "a refused byte surfaces as an error from some call")
	vAssert(vImplies(!sink.refused, !sawErr && sink.accepted == offered), "no fault: everything accepted, no error")
	vCover("history")
}

// file header: written once, error surfaces
func VerifH_C14_fileHeader() {
	sink := &verifSink{limit: vChoose("faultAt", 0, 5)}
	w := new(writer)
	w.writer.Reset(sink)
	err1 := w.writeFileHeader()
	err2 := w.writeFileHeader()
	if sink.limit >= 4 {
		vAssert(err1 == nil && err2 == nil, "header written without fault")
		vAssert(sink.accepted == 4 && w.writer.offset == 4, "magic written exactly once")
	} else {
		vAssert(err1 != nil, "a sink that refuses part of the magic makes writeFileHeader fail")
	}
	w.writer.Reset(nil)
	vAssert(w.writeFileHeader() == io.ErrClosedPipe, "closed writer reports ErrClosedPipe")
	vCover("header")
}


//go:build verif

package parquet

// C05.K5: level histograms. Each page's histogram counts exactly that page's
// levels, whatever the (reused) page-histogram buffer held before, and the
// column histogram accumulates all pages.
func VerifH_C05_levelHistograms() {
	maxLevel := byte(vChoose("maxLevel", 1, 2))
	size := int(maxLevel) + 1
	column := make([]int64, size)
	// a buffer reused after ColumnWriter.reset: length 0, stale contents within capacity
	stale := make([]int64, 2*size)
	for i := range stale {
		stale[i] = int64(vU8("stale"))
	}
	pageHist := stale[:0]
	pages := vChoose("pages", 1, 2)
	want := make([][]int64, pages)
	total := make([]int64, size)
	for p := 0; p < pages; p++ {
		n := vChoose("levels", 0, 3)
		levels := vBytes("level", n)
		want[p] = make([]int64, size)
		for i := range levels {
			vAssume(levels[i] <= maxLevel)
		}
		for l := 0; l < size; l++ {
			for i := range levels {
				if levels[i] == byte(l) {
					want[p][l]++
					total[l]++
				}
			}
		}
		pageHist = accumulateAndAppendPageLevelHistogram(column, pageHist, levels, maxLevel)
	}
	vAssert(len(pageHist) == pages*size, "one histogram per page")
	for p := 0; p < pages && len(pageHist) == pages*size; p++ {
		for l := 0; l < size; l++ {
			vAssert(pageHist[p*size+l] == want[p][l], "page histogram counts exactly the levels of that page")
		}
	}
	for l := 0; l < size; l++ {
		vAssert(column[l] == total[l], "column histogram is the sum over pages")
	}
	vCover("histograms")
}

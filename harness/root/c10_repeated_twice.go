//go:build verif

package parquet

// C10: a repeated column buffer that was reordered and read keeps consistent
// row offsets: after more rows are written and the rows are reordered again,
// the page holds exactly the permuted rows (history: swap, Page, write, swap,
// Page), including rows with an empty list.
func VerifH_C10_repeatedReorderTwice() {
	vUnwind(64)
	col := newRepeatedColumnBuffer(newInt64ColumnBuffer(Int64Type, 0, 8), 1, 1, nullsGoLast)
	var model [][]int64
	write := func(n int) {
		var vals []Value
		for r := 0; r < n; r++ {
			l := vChoose("len", 0, 2)
			row := make([]int64, l)
			if l == 0 {
				vals = append(vals, Value{}.Level(0, 0, 0))
			}
			for k := 0; k < l; k++ {
				row[k] = int64(vI8("v"))
				rep := 1
				if k == 0 {
					rep = 0
				}
				vals = append(vals, makeValueInt64(row[k]).Level(rep, 1, 0))
			}
			model = append(model, row)
		}
		if _, err := col.WriteValues(vals); err != nil {
			vAssert(false, "write")
		}
	}
	check := func(msg string) {
		out := verifReadAll(col.Page())
		var got [][]int64
		for _, v := range out {
			if v.repetitionLevel == 0 {
				got = append(got, nil)
			}
			if len(got) == 0 {
				vAssert(false, "page starts at a row boundary")
				return
			}
			if !v.IsNull() {
				got[len(got)-1] = append(got[len(got)-1], v.Int64())
			}
		}
		vAssert(len(got) == len(model), msg+": row count")
		for i := 0; i < len(got) && i < len(model); i++ {
			ok := len(got[i]) == len(model[i])
			for k := 0; ok && k < len(model[i]); k++ {
				ok = got[i][k] == model[i][k]
			}
			vAssert(ok, msg+": rows are the permuted rows")
		}
	}
	swap := func(i, j int) {
		col.Swap(i, j)
		model[i], model[j] = model[j], model[i]
	}
	write(3)
	swap(vChoose("i1", 0, 1), 2)
	check("first page")
	write(1)
	swap(vChoose("i2", 0, 2), 3)
	check("second page")
	vCover("reorder twice")
}

//go:build verif

package parquet

// C09.K5: row groups whose key ranges are declared disjoint are concatenated
// instead of merged. The ranges come from the column indexes (first/last page
// bounds of every sorting column). For model row groups with symbolic first
// and last rows and symbolic (but valid) page bounds, two row groups that end
// up in different segments must really be ordered: the last row of the earlier
// one sorts before or equal to the first row of the later one.

type verifCI struct {
	ColumnIndex
	min, max Value
}

func (c *verifCI) NumPages() int        { return 1 }
func (c *verifCI) NullPage(int) bool    { return false }
func (c *verifCI) MinValue(int) Value   { return c.min }
func (c *verifCI) MaxValue(int) Value   { return c.max }

type verifCC struct {
	ColumnChunk
	ci *verifCI
}

func (c *verifCC) ColumnIndex() (ColumnIndex, error) { return c.ci, nil }

type verifRG struct {
	RowGroup
	id     int
	chunks []ColumnChunk
}

func (g *verifRG) NumRows() int64             { return 2 }
func (g *verifRG) ColumnChunks() []ColumnChunk { return g.chunks }

func VerifH_C09_disjointSegments() {
	vUnwind(64)
	schema := NewSchema("s", Group{"a": Leaf(Int64Type), "b": Leaf(Int64Type)})
	descA := vChoose("aDescending", 0, 1) == 1
	descB := vChoose("bDescending", 0, 1) == 1
	var sa, sb SortingColumn = Ascending("a"), Ascending("b")
	if descA {
		sa = Descending("a")
	}
	if descB {
		sb = Descending("b")
	}
	sorting := []SortingColumn{sa, sb}
	compare := schema.Comparator(sorting...)
	G := 2 + vChoose("extraGroup", 0, vTier())
	type rg struct{ first, last Row }
	groups := make([]rg, G)
	rgs := make([]RowGroup, G)
	for i := 0; i < G; i++ {
		fa, fb, la, lb := int64(vI8("fa")), int64(vI8("fb")), int64(vI8("la")), int64(vI8("lb"))
		groups[i] = rg{
			first: Row{makeValueInt64(fa).Level(0, 0, 0), makeValueInt64(fb).Level(0, 0, 1)},
			last:  Row{makeValueInt64(la).Level(0, 0, 0), makeValueInt64(lb).Level(0, 0, 1)},
		}
		// the row group is sorted: first <= last in sort order
		vAssume(compare(groups[i].first, groups[i].last) <= 0)
		// page bounds: numeric min/max of each column over the rows of the group
		// (a single page; for b any valid bounds that enclose the two rows)
		minA, maxA := fa, la
		if descA {
			minA, maxA = la, fa
		}
		minB, maxB := int64(vI8("minB")), int64(vI8("maxB"))
		vAssume(vAll(minB <= fb, minB <= lb, fb <= maxB, lb <= maxB))
		rgs[i] = &verifRG{id: i, chunks: []ColumnChunk{
			&verifCC{ci: &verifCI{min: makeValueInt64(minA), max: makeValueInt64(maxA)}},
			&verifCC{ci: &verifCI{min: makeValueInt64(minB), max: makeValueInt64(maxB)}},
		}}
	}
	var segments [][]int
	seen := make([]int, G)
	for seg := range overlappingRowGroups(rgs, schema, sorting, compare) {
		var ids []int
		for _, rr := range seg {
			id := rr.rowGroup.(*verifRG).id
			ids = append(ids, id)
			seen[id]++
		}
		segments = append(segments, ids)
	}
	for i := 0; i < G; i++ {
		vAssert(seen[i] == 1, "every non-empty row group is in exactly one segment")
	}
	for s := 0; s < len(segments); s++ {
		for t := s + 1; t < len(segments); t++ {
			for _, i := range segments[s] {
				for _, j := range segments[t] {
					vAssert(compare(groups[i].last, groups[j].first) <= 0, "row groups in different segments are ordered: concatenating them keeps the output sorted")
				}
			}
		}
	}
	vCover("segments")
}

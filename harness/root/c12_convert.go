//go:build verif

package parquet

// C12: reading rows through a target schema obtained from the source by
// dropping and adding leaf columns. Oracle: a reference shredding written in
// the harness (columns present on both sides carry the source values and
// levels; an added optional column is null, an added required column is zero,
// with the levels of a sibling's structure).

func verifI64Row(cols ...Value) Row { return Row(cols) }

// flat schemas: any non-empty subset of {a,b,c} plus an optional/required added leaf
func VerifH_C12_flatSubsetAndAdd() {
	vUnwind(64)
	src := NewSchema("src", Group{"a": Leaf(Int64Type), "b": Leaf(Int64Type), "c": Leaf(Int64Type)})
	mask := vChoose("keep", 1, 7)
	add := vChoose("add", 0, 2) // 0 none, 1 optional "ab", 2 required "ab"
	tg := Group{}
	names := []string{}
	for i, n := range []string{"a", "b", "c"} {
		if mask>>i&1 == 1 {
			tg[n] = Leaf(Int64Type)
		}
	}
	switch add {
	case 1:
		tg["ab"] = Optional(Leaf(Int64Type))
	case 2:
		tg["ab"] = Leaf(Int64Type)
	}
	// target column order is by field name
	for _, n := range []string{"a", "ab", "b", "c"} {
		if _, ok := tg[n]; ok {
			names = append(names, n)
		}
	}
	dst := NewSchema("dst", tg)
	conv, err := Convert(dst, src)
	vAssert(err == nil, "conversion is accepted")
	if err != nil {
		return
	}
	nrows := vChoose("rows", 1, 2)
	rows := make([]Row, nrows)
	vals := make([][3]int64, nrows)
	for r := range rows {
		vals[r] = [3]int64{vI64("a"), vI64("b"), vI64("c")}
		rows[r] = verifI64Row(
			makeValueInt64(vals[r][0]).Level(0, 0, 0),
			makeValueInt64(vals[r][1]).Level(0, 0, 1),
			makeValueInt64(vals[r][2]).Level(0, 0, 2),
		)
	}
	n, err := conv.Convert(rows)
	vAssert(err == nil && n == nrows, "every row is converted")
	for r := 0; r < nrows && r < n; r++ {
		vAssert(len(rows[r]) == len(names), "converted row has one value per target column")
		if len(rows[r]) != len(names) {
			return
		}
		for ci, name := range names {
			v := rows[r][ci]
			vAssert(v.Column() == ci, "values carry the target column index")
			switch name {
			case "ab":
				if add == 1 {
					vAssert(v.IsNull() && v.definitionLevel == 0 && v.repetitionLevel == 0, "added optional column is null")
				} else {
					vAssert(!v.IsNull() && v.Kind() == Int64 && v.Int64() == 0 && v.definitionLevel == 0, "added required column is the zero value")
				}
			default:
				want := vals[r][int(name[0]-'a')]
				vAssert(!v.IsNull() && v.Int64() == want && v.definitionLevel == 0 && v.repetitionLevel == 0, "columns present on both sides keep their value and levels")
			}
		}
	}
	vCover("converted")
}

// a repeated group with a leaf sibling: an optional or required leaf added
// inside the group mirrors the list structure of the sibling.
func VerifH_C12_addInsideRepeatedGroup() {
	vUnwind(64)
	src := NewSchema("src", Group{"r": Repeated(Group{"x": Leaf(Int64Type)})})
	required := vChoose("addedRequired", 0, 1) == 1
	inner := Group{"x": Leaf(Int64Type)}
	if required {
		inner["y"] = Leaf(Int64Type)
	} else {
		inner["y"] = Optional(Leaf(Int64Type))
	}
	dst := NewSchema("dst", Group{"r": Repeated(inner)})
	conv, err := Convert(dst, src)
	vAssert(err == nil, "conversion is accepted")
	if err != nil {
		return
	}
	nrows := vChoose("rows", 1, 2)
	rows := make([]Row, nrows)
	type lv struct {
		null     bool
		v        int64
		rep, def byte
	}
	want := make([][]lv, nrows)
	for r := range rows {
		l := vChoose("listLen", 0, 2)
		if l == 0 {
			rows[r] = Row{Value{}.Level(0, 0, 0)}
			want[r] = []lv{{null: true}}
			continue
		}
		for k := 0; k < l; k++ {
			x := vI64("x")
			rep := byte(1)
			if k == 0 {
				rep = 0
			}
			rows[r] = append(rows[r], makeValueInt64(x).Level(int(rep), 1, 0))
			want[r] = append(want[r], lv{v: x, rep: rep, def: 1})
		}
	}
	n, err := conv.Convert(rows)
	vAssert(err == nil && n == nrows, "every row is converted")
	for r := 0; r < nrows && r < n; r++ {
		var xs, ys []Value
		for _, v := range rows[r] {
			switch v.Column() {
			case 0:
				xs = append(xs, v)
			case 1:
				ys = append(ys, v)
			default:
				vAssert(false, "unexpected column index")
			}
		}
		vAssert(len(xs) == len(want[r]) && len(ys) == len(want[r]), "both columns have one value per list element (or one null for an empty list)")
		if len(xs) != len(want[r]) || len(ys) != len(want[r]) {
			return
		}
		for k, w := range want[r] {
			if w.null {
				vAssert(xs[k].IsNull() && xs[k].definitionLevel == 0 && xs[k].repetitionLevel == 0, "empty list stays an empty list")
				// levels are authoritative: below the maximum definition level the value is
				// absent whatever payload the Value carries (the writer drops it)
				vAssert(ys[k].definitionLevel == 0 && ys[k].repetitionLevel == 0, "added column is absent for an empty list")
				continue
			}
			vAssert(!xs[k].IsNull() && xs[k].Int64() == w.v && xs[k].repetitionLevel == w.rep && xs[k].definitionLevel == w.def, "existing column keeps values and levels")
			vAssert(ys[k].repetitionLevel == w.rep, "added column mirrors the repetition levels of its sibling")
			if required {
				vAssert(!ys[k].IsNull() && ys[k].Int64() == 0 && ys[k].definitionLevel == 1, "added required column holds a zero per element")
			} else {
				vAssert(ys[k].IsNull() && ys[k].definitionLevel == 1, "added optional column is null per element (defined up to the element)")
			}
		}
	}
	vCover("converted")
}

// a repeated group whose only existing child is a group: a leaf added directly
// in the repeated group must still mirror the list structure.
func VerifH_C12_addBesideNestedGroup() {
	vUnwind(64)
	src := NewSchema("src", Group{"r": Repeated(Group{"g": Group{"x": Leaf(Int64Type)}})})
	dst := NewSchema("dst", Group{"r": Repeated(Group{"g": Group{"x": Leaf(Int64Type)}, "y": Optional(Leaf(Int64Type))})})
	conv, err := Convert(dst, src)
	vAssert(err == nil, "conversion is accepted")
	if err != nil {
		return
	}
	l := vChoose("listLen", 0, 3)
	var row Row
	if l == 0 {
		row = Row{Value{}.Level(0, 0, 0)}
	}
	for k := 0; k < l; k++ {
		rep := 1
		if k == 0 {
			rep = 0
		}
		row = append(row, makeValueInt64(vI64("x")).Level(rep, 1, 0))
	}
	rows := []Row{row.Clone()}
	n, err := conv.Convert(rows)
	vAssert(err == nil && n == 1, "row is converted")
	var xs, ys []Value
	for _, v := range rows[0] {
		if v.Column() == 0 {
			xs = append(xs, v)
		} else {
			ys = append(ys, v)
		}
	}
	vAssert(len(xs) == len(row), "existing column keeps its values")
	vAssert(len(ys) == len(xs), "added column has one entry per list element (one for an empty list)")
	for k := 0; k < len(xs) && k < len(ys); k++ {
		vAssert(ys[k].repetitionLevel == xs[k].repetitionLevel, "added column mirrors the repetition levels of the list")
		if l == 0 {
			vAssert(ys[k].definitionLevel == 0, "added column is absent for an empty list")
		} else {
			vAssert(ys[k].IsNull() && ys[k].definitionLevel == 1, "added optional column is null per element")
		}
	}
	vCover("converted")
}

// dropping a column must not disturb the levels of a required leaf nested in
// optional groups: its nulls come from the null enclosing groups.
func VerifH_C12_dropKeepsNestedLevels() {
	vUnwind(64)
	nested := func() Node { return Optional(Group{"b": Optional(Group{"x": Leaf(Int64Type)})}) }
	src := NewSchema("src", Group{"a": nested(), "c": Leaf(Int64Type)})
	dst := NewSchema("dst", Group{"a": nested()})
	conv, err := Convert(dst, src)
	vAssert(err == nil, "conversion is accepted")
	if err != nil {
		return
	}
	nrows := vChoose("rows", 1, 2)
	rows := make([]Row, nrows)
	defs := make([]int, nrows)
	xs := make([]int64, nrows)
	for r := range rows {
		defs[r] = vChoose("def", 0, 2)
		var x Value
		if defs[r] == 2 {
			xs[r] = vI64("x")
			x = makeValueInt64(xs[r]).Level(0, 2, 0)
		} else {
			x = Value{}.Level(0, defs[r], 0)
		}
		rows[r] = Row{x, makeValueInt64(vI64("c")).Level(0, 0, 1)}
	}
	n, err := conv.Convert(rows)
	vAssert(err == nil && n == nrows, "every row is converted")
	for r := 0; r < nrows && r < n; r++ {
		vAssert(len(rows[r]) == 1, "the dropped column is gone")
		if len(rows[r]) != 1 {
			return
		}
		v := rows[r][0]
		vAssert(v.Column() == 0 && int(v.definitionLevel) == defs[r] && v.repetitionLevel == 0, "definition level of the nested leaf is preserved")
		if defs[r] == 2 {
			vAssert(!v.IsNull() && v.Int64() == xs[r], "value is preserved")
		}
	}
	vCover("converted")
}

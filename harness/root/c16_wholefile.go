//go:build verif

package parquet

import (
	"bytes"
	"io"
)

// C16.K0 on whole files: values handed to the caller survive later library
// activity. The engine's sync.Pool model hands back the most recently released
// object first, so a buffer released too early is reused by the very next page
// read and the alias shows as changed bytes.
//
// (a) Go values filled by GenericReader.Read (strings, byte slices, lists) are
// unchanged by further reads into other destinations, seeks, Reset, Close, and
// by another writer and reader churning the pools.
// (b) Rows returned by ReadRows are intact when the call returns even when the
// batch spans several pages (also after a Reset of the reader), and stay
// unchanged while only other readers and writers are active.

type verifRecQ struct {
	ID   int64   `parquet:"id"`
	Name string  `parquet:"name,plain"`
	Blob []byte  `parquet:"blob,plain"`
	Tags []int32 `parquet:"tags"`
	Amt  []byte  `parquet:"amt,decimal(6:38)"` // FIXED_LEN_BYTE_ARRAY(16) read into a byte slice
}

func verifAmt(b byte) []byte {
	a := make([]byte, 16)
	a[0], a[15] = b, b
	return a
}

func verifRowsQ() []verifRecQ {
	return []verifRecQ{
		{ID: 1, Name: "first-" + vString("n0", 1), Blob: []byte{1, 2, 3, vU8("b0")}, Tags: []int32{1, 2}, Amt: verifAmt(1)},
		{ID: 2, Name: "second", Blob: []byte{9, 9, 9, 9}, Tags: []int32{3}, Amt: verifAmt(2)},
		{ID: 3, Name: "third!", Blob: []byte{7, 7, 7, 7}, Tags: nil, Amt: verifAmt(3)},
		{ID: 4, Name: "fourth", Blob: []byte{5, 5, 5, 5}, Tags: []int32{4, 5, 6}, Amt: verifAmt(4)},
	}
}

func verifFileQ(rows []verifRecQ) (*File, bool) {
	buf := new(bytes.Buffer)
	w := NewGenericWriter[verifRecQ](buf, PageBufferSize(1)) // one page per row
	for i := range rows {
		if _, err := w.Write(rows[i : i+1]); err != nil {
			return nil, false
		}
	}
	if w.Close() != nil {
		return nil, false
	}
	f, err := OpenFile(bytes.NewReader(buf.Bytes()), int64(buf.Len()))
	return f, err == nil
}

func verifSameQ(a, b *verifRecQ) bool {
	if a.ID != b.ID || len(a.Tags) != len(b.Tags) || len(a.Blob) != len(b.Blob) || !bytes.Equal(a.Amt, b.Amt) {
		return false
	}
	for i := range a.Tags {
		if a.Tags[i] != b.Tags[i] {
			return false
		}
	}
	return vAll(a.Name == b.Name, vBytesEq(a.Blob, b.Blob))
}

// verifChurn: unrelated library activity that takes and returns pooled buffers
func verifChurn() {
	other := []verifRecQ{{ID: 77, Name: "XXXXXXX", Blob: []byte{0xEE, 0xEE, 0xEE, 0xEE, 0xEE}, Tags: []int32{-1, -1, -1}, Amt: verifAmt(0xEE)}, {ID: 78, Name: "YYYYYYY", Blob: []byte{0xDD, 0xDD, 0xDD, 0xDD}, Amt: verifAmt(0xDD)}}
	f, ok := verifFileQ(other)
	if !ok {
		return
	}
	r := NewGenericReader[verifRecQ](f)
	out := make([]verifRecQ, 3)
	r.Read(out)
	r.Close()
}

func VerifH_C16_readValuesSurviveLaterActivity() {
	vUnwind(1 << 16)
	vAbstractCRCFixedWidth() // page checksums are not the subject
	rows := verifRowsQ()
	f, ok := verifFileQ(rows)
	if !ok {
		vAssert(false, "file is written")
		return
	}
	r := NewGenericReader[verifRecQ](f)
	batch := make([]verifRecQ, vChoose("batch", 1, 2))
	n, err := r.Read(batch)
	if n != len(batch) || (err != nil && err != io.EOF) {
		vAssert(false, "first batch is read")
		return
	}
	kept := append([]verifRecQ(nil), batch...) // the caller's shallow copies
	for i := range kept {
		vAssert(verifSameQ(&kept[i], &rows[i]), "first batch holds the rows written")
	}
	switch vChoose("then", 0, 4) {
	case 0: // read on, into the same batch slice
		r.Read(batch)
		r.Read(batch)
	case 1:
		r.SeekToRow(0)
		other := make([]verifRecQ, 3)
		r.Read(other)
	case 2:
		r.Reset()
		other := make([]verifRecQ, 4)
		r.Read(other)
	case 3:
		r.Close()
		verifChurn()
	case 4:
		verifChurn()
		r.Read(batch)
	}
	for i := range kept {
		vAssert(verifSameQ(&kept[i], &rows[i]), "values filled by Read are unchanged by later activity")
	}
	vCover("values")
}

func VerifH_C16_rowsSurviveUntilNextCall() {
	vUnwind(1 << 16)
	vAbstractCRCFixedWidth() // page checksums are not the subject
	rows := verifRowsQ()
	f, ok := verifFileQ(rows)
	if !ok {
		vAssert(false, "file is written")
		return
	}
	schema := SchemaOf(verifRecQ{})
	rr := f.RowGroups()[0].Rows()
	start := 0
	switch vChoose("before", 0, 2) {
	case 1: // some rows were read, then the reader is reset
		tmp := make([]Row, vChoose("readBeforeReset", 1, 3))
		rr.ReadRows(tmp)
		if rs, ok := rr.(interface{ Reset() }); ok {
			rs.Reset()
		}
	case 2:
		start = vChoose("seekTo", 1, 2)
		if err := rr.SeekToRow(int64(start)); err != nil {
			vAssert(false, "seek succeeds")
			return
		}
	}
	batch := make([]Row, vChoose("batch", 1, 3))
	n, err := rr.ReadRows(batch)
	vAssert(err == nil || err == io.EOF, "rows are read")
	check := func(what string) {
		for i := 0; i < n && start+i < len(rows); i++ {
			var v verifRecQ
			if schema.Reconstruct(&v, batch[i]) != nil {
				vAssert(false, "row re-assembles")
				return
			}
			vAssert(verifSameQ(&v, &rows[start+i]), what)
		}
	}
	vAssert(n >= 1, "at least one row is returned")
	check("rows are intact when ReadRows returns, also when the batch spans pages")
	verifChurn() // other readers and writers, not this reader
	check("rows stay unchanged while only other readers and writers are active")
	rr.Close()
	vCover("rows")
}

// (c) values read from an in-memory row group (GenericBuffer) survive the
// buffer's Reset and later buffer activity: the buffer's column storage goes
// back to the slice pools on Reset and is handed to the next buffer.
type verifRecR struct {
	ID     int64  `parquet:"id"`
	Amount []byte `parquet:"amount,decimal(2:20)"` // FIXED_LEN_BYTE_ARRAY(9)
	Note   string `parquet:"note"`
}

func verifAmount9(b byte) []byte { return []byte{b, 1, 2, 3, 4, 5, 6, 7, b} }

func VerifH_C16_bufferValuesSurviveReset() {
	vUnwind(1 << 14)
	rows := []verifRecR{{ID: 1, Amount: verifAmount9(vU8("a0")), Note: "n" + vString("note", 1)}, {ID: 2, Amount: verifAmount9(0x22), Note: "two"}}
	buffer := NewGenericBuffer[verifRecR]()
	if _, err := buffer.Write(rows); err != nil {
		vAssert(false, "buffer accepts the rows")
		return
	}
	r := NewGenericRowGroupReader[verifRecR](buffer)
	out := make([]verifRecR, 3)
	n, _ := r.Read(out)
	r.Close()
	vAssert(n == len(rows), "rows are read from the buffer")
	kept := append([]verifRecR(nil), out[:n]...)
	buffer.Reset()
	// later activity that takes storage from the same pools
	other := NewGenericBuffer[verifRecR]()
	other.Write([]verifRecR{{ID: 9, Amount: verifAmount9(0xEE), Note: "XXXX"}, {ID: 8, Amount: verifAmount9(0xDD), Note: "YYYY"}, {ID: 7, Amount: verifAmount9(0xCC), Note: "ZZZZ"}})
	buffer.Write([]verifRecR{{ID: 6, Amount: verifAmount9(0xBB), Note: "WWWW"}})
	for i := 0; i < n && i < len(rows); i++ {
		vAssert(kept[i].ID == rows[i].ID && kept[i].Note == rows[i].Note && bytes.Equal(kept[i].Amount, rows[i].Amount), "values read from a buffer are unchanged after its Reset and later buffer activity")
	}
	vCover("buffer values")
}

//go:build verif

package parquet

import "io"

// C09: merging sorted readers. Rows are {key (symbolic int64), tag (concrete:
// input*100+position)}; the comparator looks at the key only.

type verifRowReader struct {
	rows  []Row
	chunk int // rows delivered per call (0 = as many as fit)
	pos   int
}

func (r *verifRowReader) ReadRows(dst []Row) (int, error) {
	if r.pos >= len(r.rows) {
		return 0, io.EOF
	}
	n := len(r.rows) - r.pos
	if n > len(dst) {
		n = len(dst)
	}
	if r.chunk > 0 && n > r.chunk {
		n = r.chunk
	}
	for i := 0; i < n; i++ {
		dst[i] = append(dst[i][:0], r.rows[r.pos+i]...)
	}
	r.pos += n
	if r.pos >= len(r.rows) {
		return n, io.EOF
	}
	return n, nil
}

func verifCompareKey(a, b Row) int {
	x, y := a[0].int64(), b[0].int64()
	switch {
	case x < y:
		return -1
	case x > y:
		return 1
	}
	return 0
}

func verifSortedInput(input, n int) ([]Row, []int64) {
	rows := make([]Row, n)
	keys := make([]int64, n)
	for i := 0; i < n; i++ {
		keys[i] = int64(vI16("key"))
		if i > 0 {
			vAssume(keys[i-1] <= keys[i])
		}
		rows[i] = Row{makeValueInt64(keys[i]), makeValueInt64(int64(input*100 + i))}
	}
	return rows, keys
}

func verifDrain(r RowReader, batch int, limit int) (out []Row, ok bool) {
	buf := make([]Row, batch)
	for calls := 0; calls < 4*limit+8; calls++ {
		n, err := r.ReadRows(buf)
		for i := 0; i < n; i++ {
			out = append(out, buf[i].Clone())
		}
		if err == io.EOF {
			return out, true
		}
		if err != nil {
			vAssert(false, "merge returns no error")
			return out, false
		}
		if n == 0 && len(out) >= limit {
			// a reader may return (0, nil); it must reach EOF eventually
			continue
		}
	}
	vAssert(false, "merge terminates with io.EOF")
	return out, false
}

func verifCheckMerged(out []Row, sizes []int) {
	total := 0
	for _, s := range sizes {
		total += s
	}
	vAssert(len(out) == total, "merged output has exactly the rows of the inputs")
	if len(out) != total {
		return
	}
	conds := []bool{}
	for i := 0; i+1 < len(out); i++ {
		conds = append(conds, out[i][0].int64() <= out[i+1][0].int64())
	}
	vAssert(vAll(conds...), "merged output is sorted")
	// multiset union and per-input stability via the concrete tags
	next := make([]int, len(sizes))
	for _, row := range out {
		tag := int(row[1].int64())
		in, pos := tag/100, tag%100
		if in < 0 || in >= len(sizes) {
			vAssert(false, "row tag belongs to an input")
			return
		}
		vAssert(pos == next[in], "rows of one input keep their relative order and none is lost or duplicated")
		next[in] = pos + 1
	}
	for i, s := range sizes {
		vAssert(next[i] == s, "every row of every input is emitted")
	}
}

func VerifH_C09_merge2() {
	vUnwind(64)
	n0 := vChoose("n0", 0, 3)
	n1 := vChoose("n1", 0, 3+vTier())
	a, _ := verifSortedInput(0, n0)
	b, _ := verifSortedInput(1, n1)
	chunk := vChoose("chunk", 0, 1) // 1: one row per underlying read (forces refills)
	batch := vChoose("batch", 1, 3)
	m := MergeRowReaders([]RowReader{&verifRowReader{rows: a, chunk: chunk}, &verifRowReader{rows: b, chunk: chunk}}, verifCompareKey)
	out, ok := verifDrain(m, batch, n0+n1)
	if ok {
		verifCheckMerged(out, []int{n0, n1})
	}
	vCover("merged")
}

func VerifH_C09_mergeK() {
	vUnwind(64)
	k := 3 + vChoose("extraInputs", 0, vTier())
	sizes := make([]int, k)
	readers := make([]RowReader, k)
	chunk := vChoose("chunk", 0, 1)
	for i := 0; i < k; i++ {
		sizes[i] = vChoose("n", 0, 2)
		rows, _ := verifSortedInput(i, sizes[i])
		readers[i] = &verifRowReader{rows: rows, chunk: chunk}
	}
	batch := vChoose("batch", 1, 2) * 2 // 2 or 4
	m := MergeRowReaders(readers, verifCompareKey)
	total := 0
	for _, s := range sizes {
		total += s
	}
	out, ok := verifDrain(m, batch, total)
	if ok {
		verifCheckMerged(out, sizes)
	}
	vCover("merged")
}

// long single-input runs reach the galloping (run detection) path
func VerifH_C09_mergeRuns() {
	vUnwind(128)
	n0 := 6
	a, ka := verifSortedInput(0, n0)
	b, kb := verifSortedInput(1, 2)
	_ = ka
	_ = kb
	batch := vChoose("batch", 3, 8)
	m := MergeRowReaders([]RowReader{&verifRowReader{rows: a}, &verifRowReader{rows: b}}, verifCompareKey)
	out, ok := verifDrain(m, batch, n0+2)
	if ok {
		verifCheckMerged(out, []int{n0, 2})
	}
	vCover("merged")
}

// C09.K3 runLength against a linear scan
func VerifH_C09_runLength() {
	vUnwind(64)
	n := vChoose("n", 0, 10)
	rows, keys := verifSortedInput(0, n)
	bound := Row{makeValueInt64(int64(vI16("bound")))}
	max := -vChoose("excludeTies", 0, 1)
	got := runLength(rows, bound, verifCompareKey, max)
	want := 0
	for i := 0; i < n; i++ {
		c := 0
		switch {
		case keys[i] < bound[0].int64():
			c = -1
		case keys[i] > bound[0].int64():
			c = 1
		}
		if c <= max {
			want = i + 1
		}
	}
	vAssert(got == want, "runLength equals the linear scan")
	vCover("runLength")
}

// C09.K4 dedupe: one row per distinct key, the first of each run, order kept,
// across batches.
func VerifH_C09_dedupe() {
	vUnwind(64)
	n := vChoose("n", 0, 4+vTier())
	rows, keys := verifSortedInput(0, n)
	chunk := vChoose("chunk", 0, 2)
	d := DedupeRowReader(&verifRowReader{rows: rows, chunk: chunk}, verifCompareKey)
	out, ok := verifDrain(d, vChoose("batch", 1, 3), n)
	if !ok {
		return
	}
	// reference: positions i with i==0 or keys[i] != keys[i-1]
	idx := 0
	for i := 0; i < n; i++ {
		first := i == 0 || keys[i] != keys[i-1]
		if first {
			vAssert(idx < len(out), "a row is kept for every distinct key")
			if idx < len(out) {
				vAssert(int(out[idx][1].int64()) == i, "the first row of each run of equal keys is the one kept, in order")
			}
			idx++
		}
	}
	vAssert(idx == len(out), "exactly one row per distinct key remains")
	vCover("deduped")
}

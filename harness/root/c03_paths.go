//go:build verif

package parquet

import "math"

// C03.K2/K3/K5: one Go value, three ingestion paths. The reflection-driven
// shredder (Schema.Deconstruct), the typed write path (GenericBuffer[T].Write,
// unsafe sparse arrays and null bitmaps) and re-assembly (Schema.Reconstruct)
// run on the same symbolic struct value; the column streams (value, repetition
// level, definition level) of the two write paths must be identical and
// re-assembly must give back the value.

type verifInner struct {
	X int32  `parquet:"x,optional"`
	Y *int64 `parquet:"y,optional"`
}

type verifRecA struct {
	ID    int64      `parquet:"id"`
	Name  string     `parquet:"name,optional"`
	Tags  []int32    `parquet:"tags"`
	Inner verifInner `parquet:"inner"`
	F     float32    `parquet:"f"`
}

func verifRowsOfBuffer[T any](vals []T) ([]Row, bool) {
	buf := NewGenericBuffer[T]()
	n, err := buf.Write(vals)
	if err != nil || n != len(vals) {
		vAssert(false, "typed buffer accepts the values")
		return nil, false
	}
	rows := buf.Rows()
	out := make([]Row, len(vals))
	k, err := rows.ReadRows(out)
	if k != len(vals) {
		vAssert(false, "typed buffer returns every row")
		return nil, false
	}
	_ = err
	for i := range out {
		out[i] = out[i].Clone()
	}
	rows.Close()
	return out, true
}

func verifSameRow(a, b Row) bool {
	if len(a) != len(b) {
		return false
	}
	ok := true
	for i := range a {
		x, y := a[i], b[i]
		if x.Kind() != y.Kind() || x.Column() != y.Column() || x.RepetitionLevel() != y.RepetitionLevel() || x.DefinitionLevel() != y.DefinitionLevel() {
			return false
		}
		switch x.Kind() {
		case ByteArray, FixedLenByteArray:
			ok = vAll(ok, vBytesEq(x.byteArray(), y.byteArray()))
		default:
			ok = vAll(ok, x.u64 == y.u64)
		}
	}
	return ok
}

func VerifH_C03_structPaths() {
	vUnwind(256)
	var v verifRecA
	v.ID = vI64("id")
	v.Name = vString("name", vChoose("nameLen", 0, 2))
	nt := vChoose("tags", 0, 2)
	for i := 0; i < nt; i++ {
		v.Tags = append(v.Tags, vI32("tag"))
	}
	v.F = vF32("f")
	v.Inner.X = vI32("x")
	if vChoose("yset", 0, 1) == 1 {
		y := vI64("y")
		v.Inner.Y = &y
	}
	schema := SchemaOf(v)
	refl := schema.Deconstruct(nil, &v)
	typed, ok := verifRowsOfBuffer([]verifRecA{v})
	if !ok {
		return
	}
	vAssert(verifSameRow(refl, typed[0]), "typed and reflection paths shred the value into the same column streams")
	var back verifRecA
	if err := schema.Reconstruct(&back, refl); err != nil {
		vAssert(false, "the shredded row re-assembles")
		return
	}
	vAssert(back.ID == v.ID && back.Name == v.Name && back.Inner.X == v.Inner.X, "scalars re-assemble")
	vAssert(math.Float32bits(back.F) == math.Float32bits(v.F), "a float32 re-assembles bit for bit (NaN payloads included)")
	vAssert(len(back.Tags) == len(v.Tags), "list length re-assembles")
	for i := range v.Tags {
		if i < len(back.Tags) {
			vAssert(back.Tags[i] == v.Tags[i], "list elements re-assemble")
		}
	}
	vAssert((back.Inner.Y == nil) == (v.Inner.Y == nil), "pointer nil-ness re-assembles")
	if v.Inner.Y != nil && back.Inner.Y != nil {
		vAssert(*back.Inner.Y == *v.Inner.Y, "pointer target re-assembles")
	}
	vCover("paths")
}

//go:build verif

package parquet

import (
	"bytes"
	"io"
)

// C19.K4 on whole files: a variant column written through a shredding schema
// reads back as the value that was written, both through the file's own
// shredded schema and reconstructed to unshredded form; the variant column is
// a plain column or sits beneath a repeated field, and the values are arrays
// shredded as LIST<INT64> (fully shredded, partially shredded with a fallback
// element, empty), integers and strings.

type verifVarRow struct {
	Vars []any `parquet:"vars,variant"`
}

type verifVarOne struct {
	Var any `parquet:"var,variant"`
}

func verifSameAny(a, b any) bool {
	switch x := a.(type) {
	case nil:
		return b == nil
	case int64:
		y, ok := b.(int64)
		return ok && x == y
	case string:
		y, ok := b.(string)
		return ok && x == y
	case []any:
		y, ok := b.([]any)
		if !ok || len(x) != len(y) {
			return false
		}
		ok = true
		for i := range x {
			ok = vAll(ok, verifSameAny(x[i], y[i]))
		}
		return ok
	}
	return false
}

func VerifH_C19_shreddedListsWholeFile() {
	vUnwind(1 << 16)
	vAbstractCRCFixedWidth() // page checksums are not the subject
	shredded, err := ShreddedVariant(List(Int(64)))
	if err != nil {
		vAssert(false, "shredding schema is built")
		return
	}
	x, y := int64(vI8("x")), int64(vI8("y"))
	values := []any{
		[]any{x, y, int64(3)},
		"fallback",
		[]any{},
		[]any{int64(6), "mixed", y},
		x,
	}
	// choose 1..3 of the values for the row(s)
	pick := func(tag string) any { return values[vChoose(tag, 0, len(values)-1)] }
	readUnshredded := vChoose("convertToUnshredded", 0, 1) == 1
	if vChoose("repeatedColumn", 0, 1) == 1 {
		schema := NewSchema("root", Group{"vars": Repeated(shredded)})
		rows := []verifVarRow{{Vars: []any{pick("v0"), pick("v1")}}, {Vars: []any{pick("v2")}}}
		buf := new(bytes.Buffer)
		w := NewGenericWriter[verifVarRow](buf, schema)
		if vChoose("rowPath", 0, 1) == 1 {
			// the row path has its own shredder (Schema.Deconstruct)
			shredded := make([]Row, len(rows))
			for i := range rows {
				shredded[i] = schema.Deconstruct(nil, &rows[i])
			}
			if _, err := w.WriteRows(shredded); err != nil {
				vAssert(false, "rows are accepted")
				return
			}
		} else if _, err := w.Write(rows); err != nil {
			vAssert(false, "rows are accepted")
			return
		}
		if err := w.Close(); err != nil {
			vAssert(false, "file closes")
			return
		}
		readSchema := schema
		if readUnshredded {
			readSchema = NewSchema("root", Group{"vars": Repeated(Variant())})
		}
		r := NewGenericReader[verifVarRow](bytes.NewReader(buf.Bytes()), readSchema)
		got := make([]verifVarRow, len(rows)+1)
		n, err := r.Read(got)
		r.Close()
		vAssert(err == nil || err == io.EOF, "rows are read")
		vAssert(n == len(rows), "every row is read back")
		for i := 0; i < n && i < len(rows); i++ {
			vAssert(len(got[i].Vars) == len(rows[i].Vars), "the repeated variant column keeps its length")
			for j := range rows[i].Vars {
				if j < len(got[i].Vars) {
					vAssert(verifSameAny(rows[i].Vars[j], got[i].Vars[j]), "variant values beneath a repeated field read back as written")
				}
			}
		}
		vCover("repeated variant")
		return
	}
	schema := NewSchema("root", Group{"var": shredded})
	rows := []verifVarOne{{Var: pick("v0")}, {Var: pick("v1")}}
	buf := new(bytes.Buffer)
	w := NewGenericWriter[verifVarOne](buf, schema)
	if _, err := w.Write(rows); err != nil {
		vAssert(false, "rows are accepted")
		return
	}
	if err := w.Close(); err != nil {
		vAssert(false, "file closes")
		return
	}
	readSchema := schema
	if readUnshredded {
		readSchema = NewSchema("root", Group{"var": Variant()})
	}
	r := NewGenericReader[verifVarOne](bytes.NewReader(buf.Bytes()), readSchema)
	got := make([]verifVarOne, len(rows)+1)
	n, err := r.Read(got)
	r.Close()
	vAssert(err == nil || err == io.EOF, "rows are read")
	vAssert(n == len(rows), "every row is read back")
	for i := 0; i < n && i < len(rows); i++ {
		vAssert(verifSameAny(rows[i].Var, got[i].Var), "variant values read back as written")
	}
	vCover("variant")
}

// C19.K5: objects shredded on one field ($.a typed, every other field left in
// the value column), written through the typed path and through the row path
// (Schema.Deconstruct + WriteRows), read back row-wise and navigated with the
// columnar VariantReader: every field, shredded or not, reads back as written.

type verifVarObj struct {
	ID  int32 `parquet:"id"`
	Var any   `parquet:"var,variant"`
}

func VerifH_C19_partiallyShreddedObjects() {
	vUnwind(1 << 16)
	vAbstractCRCFixedWidth() // page checksums are not the subject
	shredded, err := ShreddedVariant(Group{"a": Int(64)})
	if err != nil {
		vAssert(false, "shredding schema is built")
		return
	}
	schema := NewSchema("table", Group{"id": Int(32), "var": shredded})
	a0, a1 := int64(vI8("a0")), int64(vI8("a1"))
	extra := vString("extra", 1)
	vAssume(extra[0] < 0x80) // variant strings are UTF-8; a lone high byte is not a valid value
	rows := []verifVarObj{
		{ID: 0, Var: map[string]any{"a": a0, "extra": extra}},
		{ID: 1, Var: map[string]any{"a": a1, "extra": "y"}},
	}
	if vChoose("thirdRowWithoutExtra", 0, 1) == 1 {
		rows = append(rows, verifVarObj{ID: 2, Var: map[string]any{"a": int64(3)}})
	}
	buf := new(bytes.Buffer)
	w := NewGenericWriter[verifVarObj](buf, schema)
	if vChoose("rowPath", 0, 1) == 1 {
		shredder := make([]Row, len(rows))
		for i := range rows {
			shredder[i] = schema.Deconstruct(nil, &rows[i])
		}
		if _, err := w.WriteRows(shredder); err != nil {
			vAssert(false, "rows are accepted")
			return
		}
	} else if _, err := w.Write(rows); err != nil {
		vAssert(false, "rows are accepted")
		return
	}
	if err := w.Close(); err != nil {
		vAssert(false, "file closes")
		return
	}
	data := buf.Bytes()
	back, err := Read[verifVarObj](bytes.NewReader(data), int64(len(data)))
	vAssert(err == nil && len(back) == len(rows), "rows are read back")
	for i := range rows {
		if i >= len(back) {
			break
		}
		got, _ := back[i].Var.(map[string]any)
		want := rows[i].Var.(map[string]any)
		vAssert(got != nil && len(got) == len(want), "the object keeps its fields")
		for k, x := range want {
			y, ok := got[k]
			vAssert(ok && verifSameAny(x, y), "every field of a partially shredded object reads back as written")
		}
	}
	// columnar navigation
	f, err := OpenFile(bytes.NewReader(data), int64(len(data)))
	if err != nil {
		vAssert(false, "file opens")
		return
	}
	r, err := NewVariantReader(f.RowGroups()[0], "var")
	if err != nil {
		vAssert(false, "variant reader opens")
		return
	}
	defer r.Close()
	ca, ce := r.Path("a"), r.Path("extra")
	n, err := r.Next(len(rows))
	vAssert(err == nil && n == len(rows), "the reader yields every row")
	if n != len(rows) {
		return
	}
	ints := ca.Int64s()
	vAssert(len(ints) == len(rows) && ints[0] == a0 && ints[1] == a1, "the shredded field reads back from its typed column")
	for i := range rows {
		want, has := rows[i].Var.(map[string]any)["extra"]
		v, ok, err := ce.Residual(i)
		if err != nil {
			vAssert(false, "residual field is readable")
			return
		}
		vAssert(ok == has, "an unshredded field is present exactly where it was written")
		if ok && has {
			s, isStr := v.GoValue().(string)
			vAssert(isStr && s == want.(string), "an unshredded field of a partially shredded object reads back as written")
		}
	}
	vCover("objects")
}

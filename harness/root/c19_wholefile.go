//go:build verif

package parquet

import (
	"bytes"
	"io"
)

// C19.K4 on whole files: a variant column written through a shredding schema
// reads back as the value that was written, both through the file's own
// shredded schema and reconstructed to unshredded form; the variant column is
// a plain column or sits beneath a repeated field, and the values are arrays
// shredded as LIST<INT64> (fully shredded, partially shredded with a fallback
// element, empty), integers and strings.

type verifVarRow struct {
	Vars []any `parquet:"vars,variant"`
}

type verifVarOne struct {
	Var any `parquet:"var,variant"`
}

func verifSameAny(a, b any) bool {
	switch x := a.(type) {
	case nil:
		return b == nil
	case int64:
		y, ok := b.(int64)
		return ok && x == y
	case string:
		y, ok := b.(string)
		return ok && x == y
	case []any:
		y, ok := b.([]any)
		if !ok || len(x) != len(y) {
			return false
		}
		ok = true
		for i := range x {
			ok = vAll(ok, verifSameAny(x[i], y[i]))
		}
		return ok
	}
	return false
}

func VerifH_C19_shreddedListsWholeFile() {
	vUnwind(1 << 16)
	vAbstractCRCFixedWidth() // page checksums are not the subject
	shredded, err := ShreddedVariant(List(Int(64)))
	if err != nil {
		vAssert(false, "shredding schema is built")
		return
	}
	x, y := int64(vI8("x")), int64(vI8("y"))
	values := []any{
		[]any{x, y, int64(3)},
		"fallback",
		[]any{},
		[]any{int64(6), "mixed", y},
		x,
	}
	// choose 1..3 of the values for the row(s)
	pick := func(tag string) any { return values[vChoose(tag, 0, len(values)-1)] }
	readUnshredded := vChoose("convertToUnshredded", 0, 1) == 1
	if vChoose("repeatedColumn", 0, 1) == 1 {
		schema := NewSchema("root", Group{"vars": Repeated(shredded)})
		rows := []verifVarRow{{Vars: []any{pick("v0"), pick("v1")}}, {Vars: []any{pick("v2")}}}
		buf := new(bytes.Buffer)
		w := NewGenericWriter[verifVarRow](buf, schema)
		if _, err := w.Write(rows); err != nil {
			vAssert(false, "rows are accepted")
			return
		}
		if err := w.Close(); err != nil {
			vAssert(false, "file closes")
			return
		}
		readSchema := schema
		if readUnshredded {
			readSchema = NewSchema("root", Group{"vars": Repeated(Variant())})
		}
		r := NewGenericReader[verifVarRow](bytes.NewReader(buf.Bytes()), readSchema)
		got := make([]verifVarRow, len(rows)+1)
		n, err := r.Read(got)
		r.Close()
		vAssert(err == nil || err == io.EOF, "rows are read")
		vAssert(n == len(rows), "every row is read back")
		for i := 0; i < n && i < len(rows); i++ {
			vAssert(len(got[i].Vars) == len(rows[i].Vars), "the repeated variant column keeps its length")
			for j := range rows[i].Vars {
				if j < len(got[i].Vars) {
					vAssert(verifSameAny(rows[i].Vars[j], got[i].Vars[j]), "variant values beneath a repeated field read back as written")
				}
			}
		}
		vCover("repeated variant")
		return
	}
	schema := NewSchema("root", Group{"var": shredded})
	rows := []verifVarOne{{Var: pick("v0")}, {Var: pick("v1")}}
	buf := new(bytes.Buffer)
	w := NewGenericWriter[verifVarOne](buf, schema)
	if _, err := w.Write(rows); err != nil {
		vAssert(false, "rows are accepted")
		return
	}
	if err := w.Close(); err != nil {
		vAssert(false, "file closes")
		return
	}
	readSchema := schema
	if readUnshredded {
		readSchema = NewSchema("root", Group{"var": Variant()})
	}
	r := NewGenericReader[verifVarOne](bytes.NewReader(buf.Bytes()), readSchema)
	got := make([]verifVarOne, len(rows)+1)
	n, err := r.Read(got)
	r.Close()
	vAssert(err == nil || err == io.EOF, "rows are read")
	vAssert(n == len(rows), "every row is read back")
	for i := 0; i < n && i < len(rows); i++ {
		vAssert(verifSameAny(rows[i].Var, got[i].Var), "variant values read back as written")
	}
	vCover("variant")
}

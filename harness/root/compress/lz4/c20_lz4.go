//go:build verif

package lz4

// C20.K2: the LZ4_RAW codec's decode glue around the block decoder. The block
// decoder (github.com/pierrec/lz4, foreign loops) is replaced by its contract:
// a valid block of an L-byte original decodes iff the output buffer has room
// for L bytes (and L <= 255*len(block), the format's maximal expansion); an
// invalid block is rejected whatever the buffer size.
//
//verif:replace github.com/pierrec/lz4/v4.UncompressBlock => verifUncompressBlock

var (
	verifOrig   []byte // nil: the block is invalid
	verifValid  bool
	verifCalls  int
	verifBudget = 16
)

func verifUncompressBlock(src, dst []byte) (int, error) {
	verifCalls++
	vAssert(verifCalls <= verifBudget, "decode loop terminates: the block decoder is called a bounded number of times")
	if verifCalls > verifBudget {
		vAssume(false)
	}
	if !verifValid || len(dst) < len(verifOrig) {
		return 0, errVerifShort
	}
	return copy(dst, verifOrig), nil
}

type verifErr struct{}

func (verifErr) Error() string { return "lz4: invalid source or destination buffer too short" }

var errVerifShort error = verifErr{}

func VerifH_C20_lz4Decode() {
	vUnwind(64)
	verifCalls = 0
	verifValid = vChoose("valid", 0, 1) == 1
	srcLen := vChoose("srcLen", 0, 5)
	src := vBytes("block", srcLen)
	if verifValid {
		// original length up to the maximal expansion of such a block (capped)
		maxL := 255 * srcLen
		if maxL > 600 {
			maxL = 600
		}
		L := vChoose("origLenClass", 0, 4)
		switch L {
		case 0:
			L = 0
		case 1:
			L = 1
		case 2:
			L = 3*srcLen + 1 // just above the optimistic first buffer
		case 3:
			L = maxL / 2
		case 4:
			L = maxL
		}
		if L > maxL {
			L = maxL
		}
		verifOrig = vBytes("orig", L)
	} else {
		verifOrig = nil
	}
	dstCap := []int{0, 1, 16, 64}[vChoose("dstCap", 0, 3)]
	c := &Codec{Level: DefaultLevel}
	out, err := c.Decode(make([]byte, 0, dstCap), src)
	if verifValid {
		vAssert(err == nil, "valid block decodes")
		vAssert(vBytesEq(out, verifOrig), "decoded bytes are the original")
	} else {
		vAssert(err != nil, "invalid block is rejected with an error")
	}
	vCover("decoded")
}

// native scenario: the real block decoder on a block it always rejects
func VerifS_C20_lz4Decode() {
	valid, _ := vReplayVal("valid", 0)
	if valid == 1 {
		// valid blocks with a high expansion ratio (long runs), decoded into
		// destination buffers smaller than the output so that the retry loop runs
		c := &Codec{Level: DefaultLevel}
		for _, n := range []int{300, 4096, 10000, 100000} {
			orig := make([]byte, n)
			block, err := c.Encode(nil, orig)
			if err != nil {
				vAssert(false, "scenario: encode")
				return
			}
			for _, dstCap := range []int{0, 1, 16, 64, n - 1} {
				var out []byte
				returned := vWithTimeout(func() { out, err = c.Decode(make([]byte, 0, dstCap), block) }, 20)
				vAssert(returned, "Decode of a valid block returns")
				if returned {
					vAssert(err == nil && len(out) == n, "valid block decodes")
				}
			}
		}
		vCover("scenario")
		return
	}
	c := &Codec{Level: DefaultLevel}
	var err error
	returned := vWithTimeout(func() {
		_, err = c.Decode(nil, []byte{0xff, 0xff, 0xff, 0xff, 0x01})
	}, 10)
	vAssert(returned, "Decode of a block the decoder rejects returns")
	if returned {
		vAssert(err != nil, "Decode of a block the decoder rejects returns an error")
	}
	vCover("scenario")
}

//go:build verif

package compress

import (
	"errors"
	"io"
)

// C20.K1: the pooled Compressor/Decompressor glue with model streams that obey
// the documented Reset contract. Model codec: output = 0xA5 header + payload;
// a stream whose first byte is not 0xA5 is rejected, persistently until Reset.

var errVerifCorrupt = errors.New("model codec: corrupt input")

type verifWriter struct {
	w      io.Writer
	header bool
	closed bool
}

func (m *verifWriter) Write(p []byte) (int, error) {
	if !m.header {
		m.header = true
		if _, err := m.w.Write([]byte{0xA5}); err != nil {
			return 0, err
		}
	}
	return m.w.Write(p)
}

func (m *verifWriter) Close() error {
	if !m.header {
		m.header = true
		_, err := m.w.Write([]byte{0xA5})
		return err
	}
	m.closed = true
	return nil
}

func (m *verifWriter) Reset(w io.Writer) { m.w, m.header, m.closed = w, false, false }

type verifReader struct {
	r         io.Reader
	header    bool
	failed    bool
	readAhead bool   // like brotli: the first Read slurps the whole input into an internal buffer
	pending   []byte // decoded output not yet delivered
	slurped   bool
}

var verifReadAhead bool

func (m *verifReader) Read(p []byte) (int, error) {
	if m.failed {
		return 0, errVerifCorrupt
	}
	if m.r == nil {
		return 0, io.EOF
	}
	if !m.header {
		var h [1]byte
		n, err := m.r.Read(h[:])
		if n == 0 || h[0] != 0xA5 {
			m.failed = true
			if err == nil || err == io.EOF {
				err = errVerifCorrupt
			}
			return 0, err
		}
		m.header = true
	}
	// deliver at most 2 bytes per call so that several reads and buffer growth happen
	if len(p) > 2 {
		p = p[:2]
	}
	if m.readAhead {
		if !m.slurped {
			m.slurped = true
			var tmp [4]byte
			for {
				n, err := m.r.Read(tmp[:])
				m.pending = append(m.pending, tmp[:n]...)
				if err != nil || n == 0 {
					break
				}
			}
		}
		if len(m.pending) == 0 {
			return 0, io.EOF
		}
		n := copy(p, m.pending)
		m.pending = m.pending[n:]
		return n, nil
	}
	return m.r.Read(p)
}

func (m *verifReader) Close() error { return nil }

func (m *verifReader) Reset(r io.Reader) error {
	m.r, m.header, m.failed = r, false, false
	m.pending, m.slurped = nil, false
	return nil
}

func VerifH_C20_pooledGlue() {
	vUnwind(64)
	var c Compressor
	var d Decompressor
	newW := func(w io.Writer) (Writer, error) { return &verifWriter{w: w}, nil }
	readAhead := vChoose("readAhead", 0, 1) == 1
	newR := func(r io.Reader) (Reader, error) { return &verifReader{r: r, readAhead: readAhead}, nil }
	steps := 2 + vTier()
	for s := 0; s < steps; s++ {
		switch vChoose("op", 0, 2) {
		case 0: // round trip of a symbolic payload with chosen destination capacities
			n := vChoose("len", 0, 4)
			x := vBytes("x", n)
			orig := append([]byte(nil), x...)
			enc, err := c.Encode(make([]byte, vChoose("encDirty", 0, 1), []int{1, 4, 8}[vChoose("encCap", 0, 2)]), x, newW)
			vAssert(err == nil, "encode succeeds")
			vAssert(len(enc) == n+1 && enc[0] == 0xA5, "encoded image is header+payload")
			encCopy := append([]byte(nil), enc...)
			dec, err := d.Decode(make([]byte, 0, []int{0, 1, 3}[vChoose("decCap", 0, 2)]), encCopy, newR)
			vAssert(err == nil, "decode of a valid image succeeds")
			vAssert(vBytesEq(dec, orig), "Decode(Encode(x)) == x")
		case 1: // decoding garbage fails and must not poison later calls
			g := vBytes("garbage", vChoose("glen", 0, 2))
			if len(g) > 0 {
				vAssume(g[0] != 0xA5)
			}
			_, err := d.Decode(nil, g, newR)
			vAssert(err != nil, "decode of an invalid image fails")
		case 2: // empty input
			enc, err := c.Encode(nil, nil, newW)
			vAssert(err == nil && len(enc) == 1, "empty input encodes to the header")
			dec, err := d.Decode(nil, append([]byte(nil), enc...), newR)
			vAssert(err == nil && len(dec) == 0, "empty input round trips")
		}
	}
	vCover("history")
}

//go:build verif

package parquet

import (
	"bytes"
	"io"

	"github.com/parquet-go/parquet-go/encoding/thrift"
	"github.com/parquet-go/parquet-go/format"
)

// C02.K5: the page header as the writer serialises it (reflection-driven Thrift
// struct encoder, compact protocol) is decoded (a) by the library's decoder and
// (b) by a field walker written from the compact-protocol specification; both
// recover the field values the writer set.
func VerifH_C02_pageHeaderThrift() {
	vUnwind(64)
	h := &format.PageHeader{
		Type:                 format.DataPage,
		UncompressedPageSize: vI32("uncompressed"),
		CompressedPageSize:   vI32("compressed"),
		CRC:                  vI32("crc"),
	}
	h.DataPageHeader = thrift.New(format.DataPageHeader{
		NumValues:               vI32("numValues"),
		Encoding:                format.Encoding(8*vChoose("enc", 0, 1)),
		DefinitionLevelEncoding: format.RLE,
		RepetitionLevelEncoding: format.RLE,
	})
	b, err := thrift.Marshal(new(thrift.CompactProtocol), h)
	vAssert(err == nil, "page header encodes")
	if err != nil {
		return
	}
	var g format.PageHeader
	err = thrift.Unmarshal(new(thrift.CompactProtocol), b, &g)
	vAssert(err == nil, "page header decodes")
	if err != nil {
		return
	}
	vAssert(g.Type == h.Type && g.UncompressedPageSize == h.UncompressedPageSize && g.CompressedPageSize == h.CompressedPageSize && g.CRC == h.CRC, "scalar fields round-trip")
	vAssert(g.DataPageHeader.Valid && g.DataPageHeader.V.NumValues == h.DataPageHeader.V.NumValues && g.DataPageHeader.V.Encoding == h.DataPageHeader.V.Encoding, "data page header round-trips")
	vAssert(!g.DictionaryPageHeader.Valid && !g.DataPageHeaderV2.Valid && !g.IndexPageHeader.Valid, "absent headers stay absent")
	vCover("roundtrip")
}

// C14.K3: a page header cut short at any byte is an error that cannot be
// mistaken for the regular end of the column chunk: ReadPage hands the decoder's
// error to its callers, and every page and row reader takes a bare io.EOF to
// mean "no more pages". Only a stream that ends before the first byte of a
// header may report io.EOF.
func VerifH_C14_truncatedPageHeader() {
	vUnwind(64)
	h := &format.PageHeader{
		Type:                 format.DataPage,
		UncompressedPageSize: vI32("uncompressed"),
		CompressedPageSize:   3,
	}
	if vChoose("v2", 0, 1) == 1 {
		h.Type = format.DataPageV2
		h.DataPageHeaderV2 = thrift.New(format.DataPageHeaderV2{
			NumValues: vI32("numValues"),
			NumRows:   2,
			Encoding:  format.Plain,
		})
	} else {
		h.DataPageHeader = thrift.New(format.DataPageHeader{
			NumValues:               vI32("numValues"),
			Encoding:                format.Plain,
			DefinitionLevelEncoding: format.RLE,
			RepetitionLevelEncoding: format.RLE,
		})
	}
	protocol := new(thrift.CompactProtocol)
	b, err := thrift.Marshal(protocol, h)
	if err != nil {
		vAssert(false, "page header encodes")
		return
	}
	cut := vChoose("cut", 0, len(b)-1)
	var g format.PageHeader
	err = thrift.NewDecoder(protocol.NewReader(bytes.NewReader(b[:cut]))).Decode(&g)
	vAssert(err != nil, "a truncated page header is not decoded")
	if cut > 0 {
		vAssert(err != io.EOF, "a header cut after its first byte is not reported as a clean end of stream")
	}
	vCover("truncated")
}

//go:build verif

package parquet

import (
	"bytes"
	"io"
)

// C02.K6 / C11.K6: the re-encode path (copyColumnValues) hands values to the
// destination column writer, which may flush a data page after any call. Pages
// must begin on row boundaries, so every batch handed over must start a new row.
// The source is a real repeated column buffer (a ColumnChunk); the destination
// is a real ColumnWriter whose column buffer is a recorder.

type verifRecorder struct {
	ColumnBuffer // unused methods panic on a nil interface: only the ones below are called
	calls        int
	values       int
	rows         int
	firstLevels  []byte
}

func (r *verifRecorder) WriteValues(v []Value) (int, error) {
	r.calls++
	if len(v) > 0 {
		r.firstLevels = append(r.firstLevels, v[0].repetitionLevel)
	}
	for i := range v {
		if v[i].repetitionLevel == 0 {
			r.rows++
		}
	}
	r.values += len(v)
	return len(v), nil
}
func (r *verifRecorder) Len() int    { return r.rows }
func (r *verifRecorder) Size() int64 { return 0 }

func VerifH_C02_reencodeRowBoundaries() {
	vUnwind(4096)
	// row lengths around the 1024-value batch of copyColumnValues
	first := 1016 + vChoose("firstRowLen", 0, 10) // 1016..1026
	second := vChoose("secondRowLen", 1, 4)
	third := vChoose("thirdRowLen", 0, 2)
	src := newRepeatedColumnBuffer(newInt64ColumnBuffer(Int64Type, 0, 8), 1, 1, nullsGoLast)
	total := 0
	for _, l := range []int{first, second, third} {
		if l == 0 {
			continue
		}
		vals := make([]Value, l)
		for k := range vals {
			rep := 1
			if k == 0 {
				rep = 0
			}
			vals[k] = makeValueInt64(int64(total + k)).Level(rep, 1, 0)
		}
		if _, err := src.WriteValues(vals); err != nil {
			vAssert(false, "source write")
			return
		}
		total += l
	}
	rec := &verifRecorder{}
	dst := &ColumnWriter{columnBuffer: rec, bufferSize: 1 << 30}
	err := copyColumnValues(dst, src)
	vAssert(err == nil, "copy succeeds")
	vAssert(rec.values == total, "every value is copied")
	for _, l := range rec.firstLevels {
		vAssert(l == 0, "every batch handed to the column writer starts a new row (pages begin on row boundaries)")
	}
	vCover("copied")
}

// Native re-enactment through the public API: rows of 1000, 100 and 3 values
// re-encoded by WriteRowGroup into a writer with another codec and a 1 KiB page
// buffer (data page v2) must read back intact.
func VerifS_C02_reencodeRowBoundaries() {
	type row struct {
		L []int64
	}
	mk := func(n int, base int64) row {
		r := row{L: make([]int64, n)}
		for i := range r.L {
			r.L[i] = base + int64(i)
		}
		return r
	}
	rows := []row{mk(1000, 0), mk(100, 5000), mk(3, 9000)}
	srcBuf := new(bytes.Buffer)
	sw := NewGenericWriter[row](srcBuf)
	if _, err := sw.Write(rows); err != nil || sw.Close() != nil {
		vAssert(false, "scenario: source file")
		return
	}
	sf, err := OpenFile(bytes.NewReader(srcBuf.Bytes()), int64(srcBuf.Len()))
	if err != nil {
		vAssert(false, "scenario: open source")
		return
	}
	dstBuf := new(bytes.Buffer)
	dw := NewGenericWriter[row](dstBuf, Compression(&Snappy), PageBufferSize(1024), DataPageVersion(2))
	if _, err := dw.WriteRowGroup(sf.RowGroups()[0]); err != nil {
		vAssert(false, "scenario: WriteRowGroup")
		return
	}
	if err := dw.Close(); err != nil {
		vAssert(false, "scenario: close destination")
		return
	}
	df, err := OpenFile(bytes.NewReader(dstBuf.Bytes()), int64(dstBuf.Len()))
	vAssert(err == nil, "scenario: the re-encoded file opens")
	if err != nil {
		return
	}
	// pages of the repeated column must start with repetition level 0
	pages := df.RowGroups()[0].ColumnChunks()[0].Pages()
	pagesOK := true
	for {
		p, err := pages.ReadPage()
		if err != nil {
			if err != io.EOF {
				pagesOK = false
			}
			break
		}
		if lv := p.RepetitionLevels(); len(lv) > 0 && lv[0] != 0 {
			pagesOK = false
		}
		Release(p)
	}
	pages.Close()
	vAssert(pagesOK, "every page of the re-encoded file is readable and begins on a row boundary")
	got := make([]row, 4)
	gr := NewGenericReader[row](df)
	n, err := gr.Read(got)
	vAssert(n == 3 && (err == nil || err == io.EOF), "the re-encoded file reads back with its three rows")
	if n == 3 {
		vAssert(len(got[0].L) == 1000 && len(got[1].L) == 100 && len(got[2].L) == 3, "rows keep their lengths")
	}
	vCover("scenario")
}

//go:build verif

package parquet

// C18.K1: the AAD of two different modules of one file never coincide: the
// module shapes the writer and reader use are footer (no ordinal), column-level
// (row group, column) and page-level (row group, column, page).
func verifAADShape(kind int, tag string) (byte, []int16) {
	switch kind {
	case 0:
		return footerModule, nil
	case 1:
		t := []byte{columnMetaDataModule, bloomFilterHdrModule, bloomFilterBitsModule, columnIndexModule, offsetIndexModule}[vChoose(tag+"colModule", 0, 4)]
		return t, []int16{vI16(tag + "rg"), vI16(tag + "col")}
	default:
		t := []byte{dataPageBodyModule, dataPageHeaderModule, dictPageBodyModule, dictPageHeaderModule}[vChoose(tag+"pageModule", 0, 3)]
		return t, []int16{vI16(tag + "rg"), vI16(tag + "col"), vI16(tag + "page")}
	}
}

func VerifH_C18_aadInjective() {
	prefix := vBytes("prefix", vChoose("prefixLen", 0, 2))
	unique := vBytes("unique", 2)
	t1, o1 := verifAADShape(vChoose("shape1", 0, 2), "a.")
	t2, o2 := verifAADShape(vChoose("shape2", 0, 2), "b.")
	a1 := makeAAD(prefix, unique, t1, o1...)
	a2 := makeAAD(prefix, unique, t2, o2...)
	same := t1 == t2 && len(o1) == len(o2)
	if same {
		eq := []bool{}
		for i := range o1 {
			eq = append(eq, o1[i] == o2[i])
		}
		vAssert(vBytesEq(a1, a2) == vAll(eq...), "modules of the same type share an AAD exactly when all their ordinals are equal")
	} else {
		vAssert(!vBytesEq(a1, a2), "modules of different types never share an AAD")
	}
	vCover("aad")
}

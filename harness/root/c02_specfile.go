//go:build verif

package parquet

import (
	"bytes"
	"hash/crc32"
)

// C02.K1: the bytes of a closed file are decoded by a reader written in this
// file from the Parquet format specification only (thrift compact protocol,
// parquet.thrift field numbers, data page v1/v2 layout, RLE/bit-packing hybrid,
// PLAIN and RLE_DICTIONARY) - it shares no code with the library. The footer,
// page headers, page index and offsets must describe exactly the bytes present
// and the decoded column streams must be the streams a hand-written Dremel
// shredding of the input rows gives.

// ---------- thrift compact protocol (spec: thrift/doc/specs/thrift-compact-protocol.md) ----------

type specVal struct {
	typ    byte // compact type id: 1,2 bool; 3 byte; 4 i16; 5 i32; 6 i64; 7 double; 8 binary; 9 list; 10 set; 12 struct
	i      int64
	b      []byte
	list   []*specVal
	fields []specField
}

type specField struct {
	id  int16
	val *specVal
}

type specReader struct {
	b   []byte
	pos int
	bad bool
}

func (r *specReader) byte() byte {
	if r.bad || r.pos >= len(r.b) {
		r.bad = true
		return 0
	}
	c := r.b[r.pos]
	r.pos++
	return c
}

func (r *specReader) uvarint() uint64 {
	var x uint64
	var s uint
	for i := 0; i < 10; i++ {
		c := r.byte()
		if r.bad {
			return 0
		}
		x |= uint64(c&0x7f) << s
		s += 7
		if c&0x80 == 0 {
			return x
		}
	}
	r.bad = true
	return 0
}

func (r *specReader) zigzag() int64 {
	u := r.uvarint()
	return int64(u>>1) ^ -int64(u&1)
}

func (r *specReader) value(typ byte, depth int) *specVal {
	v := &specVal{typ: typ}
	if depth > 12 {
		r.bad = true
		return v
	}
	switch typ {
	case 1:
		v.i = 1
	case 2:
		v.i = 0
	case 3:
		v.i = int64(int8(r.byte()))
	case 4, 5, 6:
		v.i = r.zigzag()
	case 7:
		for k := 0; k < 8; k++ {
			v.i |= int64(r.byte()) << (8 * k)
		}
	case 8:
		n := int(r.uvarint())
		if r.bad || n < 0 || r.pos+n > len(r.b) {
			r.bad = true
			return v
		}
		v.b = r.b[r.pos : r.pos+n]
		r.pos += n
	case 9, 10:
		h := r.byte()
		n := int(h >> 4)
		et := h & 0x0f
		if n == 15 {
			n = int(r.uvarint())
		}
		if r.bad || n < 0 || n > len(r.b) {
			r.bad = true
			return v
		}
		for k := 0; k < n && !r.bad; k++ {
			if et == 1 || et == 2 {
				// booleans inside a list take one byte each: 1 is true
				e := &specVal{typ: et}
				if r.byte() == 1 {
					e.i = 1
				}
				v.list = append(v.list, e)
			} else {
				v.list = append(v.list, r.value(et, depth+1))
			}
		}
	case 12:
		last := int16(0)
		for k := 0; k < 64 && !r.bad; k++ {
			h := r.byte()
			if h == 0 {
				return v
			}
			ft := h & 0x0f
			id := last + int16(h>>4)
			if h>>4 == 0 {
				id = int16(r.zigzag())
			}
			last = id
			v.fields = append(v.fields, specField{id, r.value(ft, depth+1)})
		}
		r.bad = true
	default:
		r.bad = true
	}
	return v
}

func (v *specVal) field(id int16) *specVal {
	if v == nil {
		return nil
	}
	for _, f := range v.fields {
		if f.id == id {
			return f.val
		}
	}
	return nil
}

func (v *specVal) int(id int16) (int64, bool) {
	f := v.field(id)
	if f == nil {
		return 0, false
	}
	return f.i, true
}

func (v *specVal) mustInt(id int16, what string) int64 {
	x, ok := v.int(id)
	vAssert(ok, what+" is present")
	return x
}

func (v *specVal) items(id int16) []*specVal {
	f := v.field(id)
	if f == nil {
		return nil
	}
	return f.list
}

// ---------- CRC-32: the standard library's IEEE CRC-32 is the reference ----------

func specCRC32(b []byte) uint32 { return crc32.ChecksumIEEE(b) }

// ---------- RLE / bit-packing hybrid (spec: Encodings.md) ----------

func specBitWidth(max int) int {
	w := 0
	for max > 0 {
		w++
		max >>= 1
	}
	return w
}

// specHybrid decodes count values of the given bit width; ok is false if the
// bytes do not hold that many.
func specHybrid(b []byte, width, count int) (out []int32, ok bool) {
	r := &specReader{b: b}
	if width == 0 {
		return make([]int32, count), true
	}
	for len(out) < count {
		h := r.uvarint()
		if r.bad {
			return out, false
		}
		if h&1 == 0 {
			n := int(h >> 1)
			var v int32
			for k := 0; k < (width+7)/8; k++ {
				v |= int32(r.byte()) << (8 * k)
			}
			if r.bad || n == 0 {
				return out, false
			}
			for k := 0; k < n && len(out) < count; k++ {
				out = append(out, v)
			}
		} else {
			groups := int(h >> 1)
			nb := groups * width
			if groups == 0 || r.pos+nb > len(r.b) {
				return out, false
			}
			bits := r.b[r.pos : r.pos+nb]
			r.pos += nb
			for k := 0; k < groups*8 && len(out) < count; k++ {
				var v int32
				for j := 0; j < width; j++ {
					bit := k*width + j
					v |= int32(bits[bit/8]>>(uint(bit)%8)&1) << uint(j)
				}
				out = append(out, v)
			}
		}
	}
	return out, true
}

// ---------- model codec (C02 compressed-pages harness) ----------

// specModelCodec: the file was written with the snappy codec replaced by the
// model below (a 2-byte prefix and a 1-byte suffix around the data).
var specModelCodec bool

func specCompress(dst, src []byte) []byte {
	dst = append(dst[:0], 0xC0, 0xDE)
	dst = append(dst, src...)
	return append(dst, 0xED)
}

// specUncompressFn is what the specification reader uses to undo the codec: the
// model's inverse in the engine, the real decoder in native scenarios.
var specUncompressFn = specUncompress

func specUncompress(b []byte) ([]byte, bool) {
	if len(b) < 3 || b[0] != 0xC0 || b[1] != 0xDE || b[len(b)-1] != 0xED {
		return nil, false
	}
	return b[2 : len(b)-1], true
}

// ---------- decoded column ----------

type specColumn struct {
	v1Pages, v2Pages, dictPages int
	rep, def                    []int32
	ints                        []int64  // INT32 / INT64 values
	strs                        [][]byte // BYTE_ARRAY values
}

type specPage struct {
	ints     []int64  // non-null values of this page (INT32/INT64)
	strs     [][]byte // non-null values of this page (BYTE_ARRAY)
	rep, def []int32  // levels of this page
	hdrLen   int64
	offset   int64 // of the page header in the file
	size     int64 // header + compressed body
	firstRow int64
	numRows  int64
	isDict   bool
}

func specLE(b []byte, n int) int64 {
	var x int64
	for k := 0; k < n; k++ {
		x |= int64(b[k]) << (8 * k)
	}
	if n == 4 {
		return int64(int32(x))
	}
	return x
}

func (c *specColumn) plain(physical int64, b []byte, n int) bool {
	pos := 0
	for k := 0; k < n; k++ {
		switch physical {
		case 1: // INT32
			if pos+4 > len(b) {
				return false
			}
			c.ints = append(c.ints, specLE(b[pos:], 4))
			pos += 4
		case 2: // INT64
			if pos+8 > len(b) {
				return false
			}
			c.ints = append(c.ints, specLE(b[pos:], 8))
			pos += 8
		case 6: // BYTE_ARRAY
			if pos+4 > len(b) {
				return false
			}
			l := int(specLE(b[pos:], 4))
			pos += 4
			if l < 0 || pos+l > len(b) {
				return false
			}
			c.strs = append(c.strs, b[pos:pos+l])
			pos += l
		default:
			return false
		}
	}
	return pos == len(b)
}

// specReadChunk walks the pages of one column chunk and decodes them.
func specReadChunk(file []byte, meta *specVal, maxRep, maxDef int) (col *specColumn, pages []specPage, ok bool) {
	col = &specColumn{}
	physical := meta.mustInt(1, "column type")
	codec := meta.mustInt(4, "codec")
	if specModelCodec {
		vAssert(codec == 1, "codec is SNAPPY as configured")
	} else {
		vAssert(codec == 0, "codec is UNCOMPRESSED as configured")
	}
	numValues := meta.mustInt(5, "num_values")
	totalCompressed := meta.mustInt(7, "total_compressed_size")
	totalUncompressed := meta.mustInt(6, "total_uncompressed_size")
	dataOff := meta.mustInt(9, "data_page_offset")
	start := dataOff
	dictOff, hasDict := meta.int(11)
	if hasDict && dictOff > 0 {
		vAssert(dictOff < dataOff, "dictionary page precedes the data pages")
		start = dictOff
	}
	var dict specColumn
	pos := start
	end := start + totalCompressed
	vAssert(start >= 4 && end <= int64(len(file)), "column chunk lies inside the file")
	if start < 4 || end > int64(len(file)) {
		return col, nil, false
	}
	seen := int64(0)
	uncompressed := int64(0)
	rows := int64(0)
	sawData := false
	for n := 0; pos < end && n < 16; n++ {
		r := &specReader{b: file[:end], pos: int(pos)}
		h := r.value(12, 0)
		vAssert(!r.bad, "page header is a well-formed thrift struct")
		if r.bad {
			return col, pages, false
		}
		hdrLen := int64(r.pos) - pos
		ptype := h.mustInt(1, "page type")
		usize := h.mustInt(2, "uncompressed_page_size")
		csize := h.mustInt(3, "compressed_page_size")
		if !specModelCodec {
			vAssert(usize == csize, "sizes agree for an uncompressed page")
		}
		vAssert(csize >= 0 && int64(r.pos)+csize <= end, "page body lies inside the column chunk")
		if csize < 0 || int64(r.pos)+csize > end {
			return col, pages, false
		}
		body := file[r.pos : int64(r.pos)+csize]
		if crc, ok := h.int(4); ok {
			vAssert(uint32(crc) == specCRC32(body), "page CRC is the CRC-32 of the page bytes")
		}
		uncompressed += hdrLen + usize
		pg := specPage{hdrLen: hdrLen, offset: pos, size: hdrLen + csize, firstRow: rows}
		switch ptype {
		case 2: // DICTIONARY_PAGE
			dh := h.field(7)
			vAssert(dh != nil, "dictionary page has a dictionary header")
			vAssert(!sawData && pos == start && hasDict, "the dictionary page is the first page and is announced in the metadata")
			if dh == nil {
				return col, pages, false
			}
			dn := int(dh.mustInt(1, "dictionary num_values"))
			enc := dh.mustInt(2, "dictionary encoding")
			vAssert(enc == 0 || enc == 2, "dictionary values are PLAIN")
			plainBody := body
			if specModelCodec {
				var okc bool
				plainBody, okc = specUncompressFn(body)
				vAssert(okc && int64(len(plainBody)) == usize, "dictionary page decompresses to uncompressed_page_size bytes")
			}
			vAssert(dict.plain(physical, plainBody, dn), "dictionary page holds exactly num_values PLAIN values")
			pg.isDict = true
			col.dictPages++
		case 0: // DATA_PAGE
			col.v1Pages++
			dh := h.field(5)
			vAssert(dh != nil, "data page v1 has its header")
			if dh == nil {
				return col, pages, false
			}
			if !sawData {
				vAssert(pos == dataOff, "data_page_offset points at the first data page")
			}
			sawData = true
			nv := int(dh.mustInt(1, "num_values"))
			enc := dh.mustInt(2, "encoding")
			b := body
			if specModelCodec {
				// a v1 page is compressed as a whole, levels included
				var okc bool
				b, okc = specUncompressFn(body)
				vAssert(okc && int64(len(b)) == usize, "v1 page decompresses to uncompressed_page_size bytes")
				if !okc {
					return col, pages, false
				}
			}
			var rep, def []int32
			okl := true
			if maxRep > 0 {
				vAssert(dh.mustInt(4, "repetition_level_encoding") == 3, "repetition levels use RLE")
				if len(b) < 4 {
					return col, pages, false
				}
				l := int(specLE(b, 4))
				if l < 0 || 4+l > len(b) {
					vAssert(false, "repetition level section fits the page")
					return col, pages, false
				}
				rep, okl = specHybrid(b[4:4+l], specBitWidth(maxRep), nv)
				vAssert(okl, "repetition levels decode")
				b = b[4+l:]
			}
			if maxDef > 0 {
				vAssert(dh.mustInt(3, "definition_level_encoding") == 3, "definition levels use RLE")
				if len(b) < 4 {
					return col, pages, false
				}
				l := int(specLE(b, 4))
				if l < 0 || 4+l > len(b) {
					vAssert(false, "definition level section fits the page")
					return col, pages, false
				}
				def, okl = specHybrid(b[4:4+l], specBitWidth(maxDef), nv)
				vAssert(okl, "definition levels decode")
				b = b[4+l:]
			}
			ni, ns := len(col.ints), len(col.strs)
			if !specPageValues(col, &dict, physical, enc, b, nv, maxRep, maxDef, rep, def) {
				return col, pages, false
			}
			pg.ints, pg.strs = col.ints[ni:], col.strs[ns:]
			pg.numRows = specCountRows(rep, nv, maxRep)
			pg.rep, pg.def = rep, def
			if maxRep > 0 && len(rep) > 0 {
				vAssert(rep[0] == 0, "page starts on a row boundary")
			}
			seen += int64(nv)
		case 3: // DATA_PAGE_V2
			col.v2Pages++
			dh := h.field(8)
			vAssert(dh != nil, "data page v2 has its header")
			if dh == nil {
				return col, pages, false
			}
			if !sawData {
				vAssert(pos == dataOff, "data_page_offset points at the first data page")
			}
			sawData = true
			nv := int(dh.mustInt(1, "num_values"))
			nn := dh.mustInt(2, "num_nulls")
			nr := dh.mustInt(3, "num_rows")
			enc := dh.mustInt(4, "encoding")
			dl := int(dh.mustInt(5, "definition_levels_byte_length"))
			rl := int(dh.mustInt(6, "repetition_levels_byte_length"))
			if rl < 0 || dl < 0 || rl+dl > len(body) {
				vAssert(false, "level sections fit the page")
				return col, pages, false
			}
			var rep, def []int32
			okl := true
			if maxRep > 0 {
				rep, okl = specHybrid(body[:rl], specBitWidth(maxRep), nv)
				vAssert(okl, "repetition levels decode")
			} else {
				vAssert(rl == 0, "no repetition levels for a non-repeated column")
			}
			if maxDef > 0 {
				def, okl = specHybrid(body[rl:rl+dl], specBitWidth(maxDef), nv)
				vAssert(okl, "definition levels decode")
			} else {
				vAssert(dl == 0, "no definition levels for a required column")
			}
			nulls := int64(0)
			for _, d := range def {
				if int(d) < maxDef {
					nulls++
				}
			}
			vAssert(nulls == nn, "num_nulls counts the values below the maximum definition level")
			values := body[rl+dl:]
			if specModelCodec {
				// v2: the levels are never compressed, the values are unless is_compressed says otherwise
				if flag := dh.field(7); flag == nil || flag.i == 1 {
					var okc bool
					values, okc = specUncompressFn(values)
					vAssert(okc, "v2 values section decompresses")
					if !okc {
						return col, pages, false
					}
				}
				vAssert(int64(rl+dl+len(values)) == usize, "uncompressed_page_size counts the levels and the uncompressed values")
			}
			ni, ns := len(col.ints), len(col.strs)
			if !specPageValues(col, &dict, physical, enc, values, nv, maxRep, maxDef, rep, def) {
				return col, pages, false
			}
			pg.ints, pg.strs = col.ints[ni:], col.strs[ns:]
			pg.numRows = specCountRows(rep, nv, maxRep)
			pg.rep, pg.def = rep, def
			vAssert(pg.numRows == nr, "num_rows counts the rows that start in the page")
			if maxRep > 0 && len(rep) > 0 {
				vAssert(rep[0] == 0, "page starts on a row boundary")
			}
			seen += int64(nv)
		default:
			vAssert(false, "known page type")
			return col, pages, false
		}
		rows += pg.numRows
		pages = append(pages, pg)
		pos += pg.size
	}
	vAssert(pos == end, "pages fill total_compressed_size exactly")
	vAssert(seen == numValues, "num_values is the sum over the data pages")
	vAssert(uncompressed == totalUncompressed, "total_uncompressed_size is the sum over the pages, headers included")
	return col, pages, true
}

func specCountRows(rep []int32, nv, maxRep int) int64 {
	if maxRep == 0 {
		return int64(nv)
	}
	n := int64(0)
	for _, r := range rep {
		if r == 0 {
			n++
		}
	}
	return n
}

func specPageValues(col, dict *specColumn, physical, enc int64, b []byte, nv, maxRep, maxDef int, rep, def []int32) bool {
	nonNull := nv
	if maxDef > 0 {
		nonNull = 0
		for _, d := range def {
			if int(d) == maxDef {
				nonNull++
			}
		}
	}
	col.rep = append(col.rep, rep...)
	col.def = append(col.def, def...)
	switch enc {
	case 0: // PLAIN
		ok := col.plain(physical, b, nonNull)
		vAssert(ok, "data page holds exactly the non-null values in PLAIN")
		return ok
	case 2, 8: // PLAIN_DICTIONARY, RLE_DICTIONARY
		if len(b) < 1 {
			vAssert(nonNull == 0, "dictionary-encoded page has its bit width byte")
			return nonNull == 0
		}
		idx, ok := specHybrid(b[1:], int(b[0]), nonNull)
		vAssert(ok, "dictionary indexes decode")
		if !ok {
			return false
		}
		for _, i := range idx {
			if physical == 6 {
				if int(i) >= len(dict.strs) {
					vAssert(false, "dictionary index in range")
					return false
				}
				col.strs = append(col.strs, dict.strs[i])
			} else {
				if int(i) >= len(dict.ints) {
					vAssert(false, "dictionary index in range")
					return false
				}
				col.ints = append(col.ints, dict.ints[i])
			}
		}
		return true
	}
	vAssert(false, "encoding known to the spec reader")
	return false
}

// ---------- file ----------

type specLeaf struct {
	name           string
	maxRep, maxDef int
}

type specFile struct {
	footer *specVal
	leaves []specLeaf
}

func specOpen(file []byte) (*specFile, bool) {
	n := len(file)
	vAssert(n >= 12 && string(file[:4]) == "PAR1" && string(file[n-4:]) == "PAR1", "file starts and ends with the magic")
	if n < 12 {
		return nil, false
	}
	fl := int(uint32(specLE(file[n-8:], 4)))
	vAssert(fl > 0 && fl <= n-12, "footer length fits the file")
	if fl <= 0 || fl > n-12 {
		return nil, false
	}
	r := &specReader{b: file[n-8-fl : n-8]}
	footer := r.value(12, 0)
	vAssert(!r.bad && r.pos == fl, "footer is one well-formed thrift struct of the announced length")
	if r.bad {
		return nil, false
	}
	f := &specFile{footer: footer}
	// flat walk of the schema: the root, then children depth-first
	elems := footer.items(2)
	vAssert(len(elems) >= 1, "schema has a root")
	type frame struct{ left, rep, def int }
	stack := []frame{}
	for i, e := range elems {
		nameV := e.field(4)
		vAssert(nameV != nil, "schema element has a name")
		children, _ := e.int(5)
		if i == 0 {
			stack = append(stack, frame{left: int(children)})
			continue
		}
		vAssert(len(stack) > 0, "schema element has a parent")
		if len(stack) == 0 {
			return nil, false
		}
		top := &stack[len(stack)-1]
		top.left--
		rep, def := top.rep, top.def
		switch r, _ := e.int(3); r {
		case 1: // OPTIONAL
			def++
		case 2: // REPEATED
			rep++
			def++
		}
		if _, isLeaf := e.int(1); isLeaf && children == 0 {
			f.leaves = append(f.leaves, specLeaf{string(nameV.b), rep, def})
		} else {
			stack = append(stack, frame{left: int(children), rep: rep, def: def})
		}
		for len(stack) > 0 && stack[len(stack)-1].left == 0 {
			stack = stack[:len(stack)-1]
		}
	}
	vAssert(len(stack) == 0, "num_children of the schema elements add up")
	return f, true
}

// specCheckIndexes compares the page index of one column chunk with the pages found by walking it.
func specCheckIndexes(file []byte, chunk *specVal, pages []specPage, col *specColumn, leaf specLeaf, chunkRows int64) {
	physical := int64(0)
	if meta := chunk.field(3); meta != nil {
		physical, _ = meta.int(1)
	}
	var data []specPage
	for _, p := range pages {
		if !p.isDict {
			data = append(data, p)
		}
	}
	if off, ok := chunk.int(4); ok && off != 0 {
		ln := chunk.mustInt(5, "offset_index_length")
		vAssert(off > 0 && ln > 0 && off+ln <= int64(len(file)), "offset index lies inside the file")
		if off <= 0 || ln <= 0 || off+ln > int64(len(file)) {
			return
		}
		r := &specReader{b: file[off : off+ln]}
		oi := r.value(12, 0)
		vAssert(!r.bad && int64(r.pos) == ln, "offset index is one thrift struct of the announced length")
		locs := oi.items(1)
		vAssert(len(locs) == len(data), "one page location per data page")
		for i, l := range locs {
			if i >= len(data) {
				break
			}
			vAssert(l.mustInt(1, "page offset") == data[i].offset, "page location offset is the file offset of the page header")
			vAssert(l.mustInt(2, "page size") == data[i].size, "page location size covers header and body")
			vAssert(l.mustInt(3, "first row") == data[i].firstRow, "first_row_index is the index of the first row of the page")
		}
	}
	if off, ok := chunk.int(6); ok && off != 0 {
		ln := chunk.mustInt(7, "column_index_length")
		vAssert(off > 0 && ln > 0 && off+ln <= int64(len(file)), "column index lies inside the file")
		if off <= 0 || ln <= 0 || off+ln > int64(len(file)) {
			return
		}
		r := &specReader{b: file[off : off+ln]}
		ci := r.value(12, 0)
		vAssert(!r.bad && int64(r.pos) == ln, "column index is one thrift struct of the announced length")
		vAssert(len(ci.items(1)) == len(data) && len(ci.items(2)) == len(data) && len(ci.items(3)) == len(data), "one column index entry per data page")
		// min_values / max_values (fields 2, 3) bound the values of their page; null_pages (1) flags pages without values
		nullPages, mins, maxs := ci.items(1), ci.items(2), ci.items(3)
		for i := range data {
			if i >= len(nullPages) || i >= len(mins) || i >= len(maxs) {
				break
			}
			empty := len(data[i].ints) == 0 && len(data[i].strs) == 0
			vAssert((nullPages[i].i == 1) == empty, "null_pages flags exactly the pages without non-null values")
			if !empty {
				specCheckBounds(mins[i].b, maxs[i].b, data[i].ints, data[i].strs, physical, "column index page")
			}
		}
		// per-page level histograms (fields 6 and 7): pages concatenated, one bucket per level
		specCheckPageHistograms(ci.items(6), data, leaf.maxRep, true)
		specCheckPageHistograms(ci.items(7), data, leaf.maxDef, false)
	}
}

// specCheckHistogram: a level histogram, when present, has one bucket per level
// and counts the levels stored in the chunk's pages.
func specCheckHistogram(hist []*specVal, levels []int32, max int, what string) {
	if len(hist) == 0 {
		return
	}
	vAssert(len(hist) == max+1, what+" level histogram has one bucket per level")
	for l, h := range hist {
		n := int64(0)
		for _, x := range levels {
			if int(x) == l {
				n++
			}
		}
		vAssert(h.i == n, what+" level histogram counts the levels of this chunk")
	}
}

func specCheckPageHistograms(hist []*specVal, pages []specPage, max int, repetition bool) {
	if len(hist) == 0 {
		return
	}
	vAssert(len(hist) == len(pages)*(max+1), "page level histograms hold one bucket per level and page")
	if len(hist) != len(pages)*(max+1) {
		return
	}
	for p, pg := range pages {
		levels := pg.def
		if repetition {
			levels = pg.rep
		}
		for l := 0; l <= max; l++ {
			n := int64(0)
			for _, x := range levels {
				if int(x) == l {
					n++
				}
			}
			vAssert(hist[p*(max+1)+l].i == n, "a page level histogram counts the levels of its page")
		}
	}
}

// specOrderedKey turns a PLAIN-encoded statistics value into something comparable:
// signed integers for INT32/INT64, the bytes themselves (unsigned lexicographic) for BYTE_ARRAY.
func specLessEqBytes(a, b []byte) bool {
	for i := 0; i < len(a) && i < len(b); i++ {
		if a[i] != b[i] {
			return a[i] < b[i]
		}
	}
	return len(a) <= len(b)
}

// specSkipBounds: the harness that keeps the real CRC-32 (with 64-bit symbolic
// values) leaves the bounds to the other harnesses: order comparisons under a
// path condition full of CRC terms come back unknown.
var specSkipBounds bool

// specCheckBounds: min <= v <= max for every value, in the column's sort order.
func specCheckBounds(min, max []byte, ints []int64, strs [][]byte, physical int64, what string) {
	if specSkipBounds {
		return
	}
	switch physical {
	case 1, 2:
		w := 4
		if physical == 2 {
			w = 8
		}
		if len(min) != w || len(max) != w {
			vAssert(false, what+" bounds have the width of the type")
			return
		}
		lo, hi := specLE(min, w), specLE(max, w)
		for _, v := range ints {
			vAssert(lo <= v && v <= hi, what+" bounds contain every value")
		}
	case 6:
		for _, v := range strs {
			vAssert(specLessEqBytes(min, v) && specLessEqBytes(v, max), what+" bounds contain every value")
		}
	}
}

// specDecodeFile decodes every column of every row group and checks the footer against the bytes.
func specDecodeFile(file []byte, wantRows int64) ([]*specColumn, bool) {
	f, ok := specOpen(file)
	if !ok {
		return nil, false
	}
	vAssert(f.footer.mustInt(3, "num_rows") == wantRows, "footer num_rows is the number of rows written")
	cols := make([]*specColumn, len(f.leaves))
	for i := range cols {
		cols[i] = &specColumn{}
	}
	total := int64(0)
	prevEnd := int64(4)
	for gi, rg := range f.footer.items(4) {
		chunks := rg.items(1)
		vAssert(len(chunks) == len(f.leaves), "one column chunk per leaf")
		if len(chunks) != len(f.leaves) {
			return nil, false
		}
		rgRows := rg.mustInt(3, "row group num_rows")
		total += rgRows
		sumU, sumC := int64(0), int64(0)
		for ci, chunk := range chunks {
			meta := chunk.field(3)
			vAssert(meta != nil, "column chunk carries its metadata")
			if meta == nil {
				return nil, false
			}
			path := meta.items(3)
			vAssert(len(path) >= 1 && string(path[len(path)-1].b) == f.leaves[ci].name, "path_in_schema names the leaf")
			col, pages, ok := specReadChunk(file, meta, f.leaves[ci].maxRep, f.leaves[ci].maxDef)
			if !ok {
				return nil, false
			}
			rows := int64(0)
			first := int64(-1)
			for _, p := range pages {
				rows += p.numRows
				if first < 0 {
					first = p.offset
				}
			}
			vAssert(rows == rgRows, "every column chunk holds the rows of its row group")
			vAssert(first == prevEnd, "column chunks are laid out back to back")
			prevEnd = first + meta.mustInt(7, "total_compressed_size")
			if ci == 0 {
				if fo, ok := rg.int(5); ok {
					vAssert(fo == first, "row group file_offset is the offset of its first page")
				}
			}
			// encodings announced
			for _, p := range pages {
				_ = p
			}
			sumU += meta.mustInt(6, "total_uncompressed_size")
			sumC += meta.mustInt(7, "total_compressed_size")
			if st := meta.field(12); st != nil {
				if nc, ok := st.int(3); ok {
					nulls := int64(0)
					for _, d := range col.def {
						if int(d) < f.leaves[ci].maxDef {
							nulls++
						}
					}
					vAssert(nc == nulls, "chunk statistics null_count counts the nulls")
				}
				if mn, mx := st.field(6), st.field(5); mn != nil && mx != nil && (len(col.ints) > 0 || len(col.strs) > 0) {
					physical, _ := meta.int(1)
					specCheckBounds(mn.b, mx.b, col.ints, col.strs, physical, "chunk statistics")
				}
			}
			if ss := meta.field(16); ss != nil {
				specCheckHistogram(ss.items(3), col.def, f.leaves[ci].maxDef, "definition")
				specCheckHistogram(ss.items(2), col.rep, f.leaves[ci].maxRep, "repetition")
			}
			specCheckIndexes(file, chunk, pages, col, f.leaves[ci], rgRows)
			cols[ci].v1Pages += col.v1Pages
			cols[ci].v2Pages += col.v2Pages
			cols[ci].dictPages += col.dictPages
			cols[ci].rep = append(cols[ci].rep, col.rep...)
			cols[ci].def = append(cols[ci].def, col.def...)
			cols[ci].ints = append(cols[ci].ints, col.ints...)
			cols[ci].strs = append(cols[ci].strs, col.strs...)
		}
		vAssert(rg.mustInt(2, "total_byte_size") == sumU, "row group total_byte_size is the sum of the uncompressed chunk sizes")
		if tc, ok := rg.int(6); ok {
			vAssert(tc == sumC, "row group total_compressed_size is the sum of the chunk sizes")
		}
		if ord, ok := rg.int(7); ok {
			vAssert(ord == int64(gi), "row group ordinal")
		}
	}
	vAssert(total == wantRows, "row group row counts add up to num_rows")
	return cols, true
}

// ---------- the harness ----------

type verifRecG struct {
	ID   int64   `parquet:"id"`
	Opt  int32   `parquet:"opt,optional"`
	Name string  `parquet:"name,dict"`
	Tags []int32 `parquet:"tags"`
}

func VerifH_C02_specReaderAgrees() {
	vUnwind(1 << 16)
	specSkipBounds = true
	n := vChoose("rows", 1, 2+vTier())
	sym := vChoose("symbolicColumn", 0, 3)
	rows := make([]verifRecG, n)
	for i := range rows {
		f := verifSymF(sym, i)
		rows[i] = verifRecG{f.ID, f.Opt, f.Name, f.Tags}
	}
	var opts []WriterOption
	if vChoose("pageVersion", 1, 2) == 1 {
		opts = append(opts, DataPageVersion(1))
	}
	switch vChoose("layout", 0, 2) {
	case 1:
		opts = append(opts, MaxRowsPerRowGroup(1))
	case 2:
		opts = append(opts, PageBufferSize(1))
	}
	buf := new(bytes.Buffer)
	w := NewGenericWriter[verifRecG](buf, opts...)
	if k, err := w.Write(rows); err != nil || k != n {
		vAssert(false, "rows are accepted")
		return
	}
	if err := w.Close(); err != nil {
		vAssert(false, "file closes")
		return
	}
	cols, ok := specDecodeFile(buf.Bytes(), int64(n))
	if !ok {
		return
	}
	vAssert(len(cols) == 4, "four leaf columns")
	if len(cols) != 4 {
		return
	}
	// hand-written Dremel shredding of the rows
	var ids, opts32, tags []int64
	var optDef, tagRep, tagDef []int32
	var names [][]byte
	for i := range rows {
		ids = append(ids, rows[i].ID)
		if rows[i].Opt != 0 {
			optDef = append(optDef, 1)
			opts32 = append(opts32, int64(rows[i].Opt))
		} else {
			optDef = append(optDef, 0)
		}
		names = append(names, []byte(rows[i].Name))
		if len(rows[i].Tags) == 0 {
			tagRep, tagDef = append(tagRep, 0), append(tagDef, 0)
		}
		for j, t := range rows[i].Tags {
			r := int32(1)
			if j == 0 {
				r = 0
			}
			tagRep, tagDef, tags = append(tagRep, r), append(tagDef, 1), append(tags, int64(t))
		}
	}
	vAssert(specSameInts(cols[0].ints, ids) && len(cols[0].def) == 0 && len(cols[0].rep) == 0, "required int64 column holds the written values")
	vAssert(specSameInts(cols[1].ints, opts32) && specSameLevels(cols[1].def, optDef), "optional column holds the non-null values and the null pattern")
	vAssert(len(cols[2].strs) == len(names), "string column holds one value per row")
	for i := range names {
		if i < len(cols[2].strs) {
			vAssert(vBytesEq(cols[2].strs[i], names[i]), "string column holds the written bytes")
		}
	}
	vAssert(specSameInts(cols[3].ints, tags) && specSameLevels(cols[3].rep, tagRep) && specSameLevels(cols[3].def, tagDef), "repeated column holds the written values and levels")
	vCover("agrees")
}

func specSameInts(a, b []int64) bool {
	if len(a) != len(b) {
		return false
	}
	ok := true
	for i := range a {
		ok = vAll(ok, a[i] == b[i])
	}
	return ok
}

func specSameLevels(a, b []int32) bool {
	if len(a) != len(b) {
		return false
	}
	for i := range a {
		if a[i] != b[i] {
			return false
		}
	}
	return true
}

// nested optional group with an optional leaf and a repeated leaf: definition
// and repetition levels above 1 through the specification reader
type verifInnerG struct {
	X  int32   `parquet:"x,optional"`
	Ys []int32 `parquet:"ys"`
}

type verifRecG2 struct {
	ID    int64        `parquet:"id"`
	Inner *verifInnerG `parquet:"inner,optional"`
}

func VerifH_C02_specReaderNested() {
	vUnwind(1 << 16)
	// the CRC field is checked against the real CRC-32 by VerifH_C02_specReaderAgrees;
	// here it is an unknown function of the page bytes, so that several columns
	// can be symbolic at once
	vAbstractCRCFixedWidth()
	n := vChoose("rows", 1, 2+vTier())
	rows := make([]verifRecG2, n)
	for i := range rows {
		rows[i].ID = int64(10 + i)
		switch vChoose("inner", 0, 3) {
		case 1:
			rows[i].Inner = &verifInnerG{}
		case 2:
			rows[i].Inner = &verifInnerG{X: int32(vI8("x")), Ys: []int32{int32(vI8("y0"))}}
		case 3:
			rows[i].Inner = &verifInnerG{X: 5, Ys: []int32{1, int32(vI8("y1")), 3}}
		}
	}
	var opts []WriterOption
	if vChoose("pageVersion", 1, 2) == 1 {
		opts = append(opts, DataPageVersion(1))
	}
	if vChoose("onePagePerRow", 0, 1) == 1 {
		opts = append(opts, PageBufferSize(1))
	}
	buf := new(bytes.Buffer)
	w := NewGenericWriter[verifRecG2](buf, opts...)
	for i := range rows {
		if _, err := w.Write(rows[i : i+1]); err != nil {
			vAssert(false, "rows are accepted")
			return
		}
	}
	if err := w.Close(); err != nil {
		vAssert(false, "file closes")
		return
	}
	cols, ok := specDecodeFile(buf.Bytes(), int64(n))
	if !ok {
		return
	}
	vAssert(len(cols) == 3, "three leaf columns")
	if len(cols) != 3 {
		return
	}
	var ids, xs, ys []int64
	var xDef, yRep, yDef []int32
	for i := range rows {
		ids = append(ids, rows[i].ID)
		in := rows[i].Inner
		switch {
		case in == nil:
			xDef = append(xDef, 0)
			yRep, yDef = append(yRep, 0), append(yDef, 0)
		default:
			if in.X != 0 {
				xDef, xs = append(xDef, 2), append(xs, int64(in.X))
			} else {
				xDef = append(xDef, 1)
			}
			if len(in.Ys) == 0 {
				yRep, yDef = append(yRep, 0), append(yDef, 1)
			}
			for j, y := range in.Ys {
				r := int32(1)
				if j == 0 {
					r = 0
				}
				yRep, yDef, ys = append(yRep, r), append(yDef, 2), append(ys, int64(y))
			}
		}
	}
	vAssert(specSameInts(cols[0].ints, ids), "required column holds the written values")
	vAssert(specSameInts(cols[1].ints, xs) && specSameLevels(cols[1].def, xDef), "optional leaf in an optional group: values and two-level null pattern")
	vAssert(specSameInts(cols[2].ints, ys) && specSameLevels(cols[2].rep, yRep) && specSameLevels(cols[2].def, yDef), "repeated leaf in an optional group: values, repetition and definition levels")
	vCover("nested")
}

//go:build verif

package variant

// C19: the offset width chosen for an array, object or metadata dictionary
// holds every offset up to the maximum it was chosen for: for every maximum
// value m (a data size or a dictionary size, unrestricted here) and every
// value v in 0..m, writing v with the chosen width and reading it back gives v,
// and the width is the smallest that holds m.
func VerifH_C19_offsetSizeHoldsMaximum() {
	m := vInt("max")
	v := vInt("v")
	vAssume(m >= 0 && m <= 0xFFFFFFFF)
	vAssume(v >= 0 && v <= m)
	code := offsetSizeCode(m)
	vAssert(code <= 3, "code in range")
	size := int(code) + 1
	var buf [4]byte
	writeUint(buf[:], v, size)
	got, n, err := readUint(buf[:], size)
	vAssert(err == nil && n == size, "offset is read back")
	vAssert(got == v, "offset survives the chosen width")
	if size > 1 {
		vAssert(m >= 1<<(8*uint(size-1)), "the width is the smallest that holds the maximum")
	}
	vCover("offset size")
}

//go:build verif

package variant

import (
	"math"

	"github.com/google/uuid"
)

// C19.K1: every primitive kind with a symbolic payload encodes to bytes that
// decode to an equal value, and the decoder consumes exactly the encoded bytes.

func verifRoundTrip(v Value) (Value, bool) {
	var b MetadataBuilder
	enc := Encode(&b, v)
	vAssert(len(enc) > 0, "value encodes")
	m, _ := b.Build()
	dec, n, err := decodeValue(m, enc)
	vAssert(err == nil, "encoded value decodes")
	vAssert(n == len(enc), "decoder consumes exactly the encoded bytes")
	d2, err2 := Decode(m, enc)
	vAssert(err2 == nil && d2.Equal(dec), "Decode agrees with decodeValue")
	return dec, err == nil
}

func VerifH_C19_primitives() {
	vUnwind(80)
	kind := vChoose("kind", 0, 19)
	var v Value
	switch kind {
	case 0:
		v = Null()
	case 1:
		v = Bool(vBool("b"))
	case 2:
		v = Int8(vI8("i8"))
	case 3:
		v = Int16(vI16("i16"))
	case 4:
		v = Int32(vI32("i32"))
	case 5:
		v = Int64(vI64("i64"))
	case 6:
		v = Float(vF32("f32"))
	case 7:
		v = Double(vF64("f64"))
	case 8:
		v = Date(vI32("date"))
	case 9:
		v = Timestamp(vI64("ts"))
	case 10:
		v = TimestampNTZ(vI64("tsntz"))
	case 11:
		v = Time(vI64("time"))
	case 12:
		v = TimestampNanos(vI64("tsn"))
	case 13:
		v = TimestampNTZNanos(vI64("tsntzn"))
	case 14:
		var u uuid.UUID
		copy(u[:], vBytes("uuid", 16))
		v = UUID(u)
	case 15:
		v = Decimal4(vI32("d4"), vU8("scale"))
	case 16:
		v = Decimal8(vI64("d8"), vU8("scale"))
	case 17:
		var d [16]byte
		copy(d[:], vBytes("d16", 16))
		v = Decimal16(d, vU8("scale"))
	case 18:
		// short and long strings (valid UTF-8: ASCII here; the decoder rejects anything else by design)
		n := []int{0, 1, 3, 63, 64, 65}[vChoose("strlen", 0, 5)]
		s := make([]byte, n)
		for i := range s {
			s[i] = 'a' + byte(i%26)
		}
		k := 3
		if n < k {
			k = n
		}
		sym := vBytes("str", k)
		for i := 0; i < k; i++ {
			vAssume(sym[i] < 0x80)
			s[i] = sym[i]
		}
		v = String(string(s))
	case 19:
		v = Binary(vBytes("bin", vChoose("binlen", 0, 4)))
	}
	dec, ok := verifRoundTrip(v)
	if ok {
		vAssert(dec.Equal(v), "decoded value equals the original")
		vAssert(v.Equal(dec), "equality is symmetric")
		// bit-exact payloads for floats
		if kind == 6 {
			vAssert(math.Float32bits(float32(dec.f64)) == math.Float32bits(float32(v.f64)), "float payload bit-exact")
		}
		if kind == 7 {
			vAssert(math.Float64bits(dec.f64) == math.Float64bits(v.f64), "double payload bit-exact")
		}
	}
	vCover("roundtrip")
}

// C19.K2: small containers.
func VerifH_C19_containers() {
	vUnwind(80)
	shape := vChoose("shape", 0, 3)
	a, b, c := Int32(vI32("a")), Int64(vI64("b")), Int8(vI8("c"))
	var v Value
	switch shape {
	case 0:
		v = MakeArray([]Value{a, b})
	case 1:
		v = MakeObject([]Field{{Name: "y", Value: a}, {Name: "x", Value: b}})
	case 2:
		v = MakeArray([]Value{MakeObject([]Field{{Name: "k", Value: c}}), a, MakeArray(nil)})
	case 3:
		v = MakeObject([]Field{{Name: "outer", Value: MakeObject([]Field{{Name: "in", Value: b}, {Name: "arr", Value: MakeArray([]Value{c, a})}})}, {Name: "z", Value: Null()}})
	}
	dec, ok := verifRoundTrip(v)
	if ok {
		vAssert(dec.Equal(v), "decoded container equals the original")
	}
	vCover("roundtrip")
}

// C19.K2 (wide dictionary): field ids above 255 need two bytes whatever the
// order in which the names were interned.
func VerifH_C19_wideDictionaryObject() {
	vUnwind(1200)
	var b MetadataBuilder
	b.Add("zz") // the greatest field name gets the smallest id
	for i := 0; i < 299; i++ {
		b.Add("f" + string(rune('a'+i/26/26)) + string(rune('a'+i/26%26)) + string(rune('a'+i%26)))
	}
	late := "f" + string(rune('a'+298/26/26)) + string(rune('a'+298/26%26)) + string(rune('a'+298%26))
	x, y := Int32(vI32("x")), Int64(vI64("y"))
	v := MakeObject([]Field{{Name: late, Value: x}, {Name: "zz", Value: y}})
	enc := Encode(&b, v)
	vAssert(len(enc) > 0, "object encodes")
	m, _ := b.Build()
	dec, n, err := decodeValue(m, enc)
	vAssert(err == nil && n == len(enc), "object decodes and consumes the encoded bytes")
	if err == nil {
		vAssert(dec.Equal(v), "object with field ids above 255 round-trips")
	}
	vCover("roundtrip")
}

//go:build verif

package parquet

import "github.com/parquet-go/parquet-go/format"

// C17.K1 / C02: ColumnWriter.reset between row groups. Whatever the per-row-group
// state held (symbolic garbage), after reset every field that feeds the next
// row group's metadata is back to its initial value, for every level shape.
func VerifH_C17_columnWriterReset() {
	shapes := [][2]byte{{0, 0}, {0, 1}, {1, 1}, {1, 2}}
	sh := shapes[vChoose("levels", 0, len(shapes)-1)]
	c := &ColumnWriter{
		maxRepetitionLevel: sh[0], maxDefinitionLevel: sh[1],
		columnChunk: &format.ColumnChunk{}, offsetIndex: &format.OffsetIndex{},
		columnIndex: newInt32ColumnIndexer(),
	}
	c.repetitionLevelHistogram = make([]int64, int(sh[0])+1)
	c.definitionLevelHistogram = make([]int64, int(sh[1])+1)
	for i := range c.repetitionLevelHistogram {
		c.repetitionLevelHistogram[i] = vI64("rh")
	}
	for i := range c.definitionLevelHistogram {
		c.definitionLevelHistogram[i] = vI64("dh")
	}
	c.pageRepetitionLevelHistograms = []int64{vI64("prh")}
	c.pageDefinitionLevelHistograms = []int64{vI64("pdh")}
	c.numRows, c.numPages = vI64("numRows"), int(vU8("numPages"))
	c.totalUnencodedByteArrayBytes = vI64("unenc")
	c.filter = vBytes("filter", 32)
	md := &c.columnChunk.MetaData
	md.NumValues, md.TotalCompressedSize, md.TotalUncompressedSize = vI64("nv"), vI64("tc"), vI64("tu")
	md.DataPageOffset, md.DictionaryPageOffset, md.BloomFilterOffset = vI64("dpo"), vI64("dico"), vI64("bfo")
	md.Statistics.NullCount = vI64("nulls")
	md.Statistics.MinValue = vBytes("min", 2)
	md.EncodingStats = []format.PageEncodingStats{{Count: vI32("count")}}
	c.offsetIndex.PageLocations = []format.PageLocation{{Offset: vI64("off")}}
	c.columnIndex.IndexPage(3, 1, makeValueInt32(vI32("imin")), makeValueInt32(vI32("imax")))

	c.reset()

	for _, h := range c.repetitionLevelHistogram {
		vAssert(h == 0, "repetition level histogram is cleared")
	}
	for _, h := range c.definitionLevelHistogram {
		vAssert(h == 0, "definition level histogram is cleared")
	}
	vAssert(len(c.pageRepetitionLevelHistograms) == 0 && len(c.pageDefinitionLevelHistograms) == 0, "page histograms are emptied")
	vAssert(c.numRows == 0 && c.numPages == 0 && c.totalUnencodedByteArrayBytes == 0, "counters are zero")
	vAssert(len(c.filter) == 0, "bloom filter is emptied")
	vAssert(md.NumValues == 0 && md.TotalCompressedSize == 0 && md.TotalUncompressedSize == 0, "chunk sizes are zero")
	vAssert(md.DataPageOffset == 0 && md.DictionaryPageOffset == 0 && md.BloomFilterOffset == 0, "chunk offsets are zero")
	vAssert(md.Statistics.NullCount == 0 && md.Statistics.MinValue == nil && md.Statistics.MaxValue == nil, "chunk statistics are cleared")
	vAssert(len(md.EncodingStats) == 0 && len(c.offsetIndex.PageLocations) == 0, "encoding stats and page locations are emptied")
	ci := c.columnIndex.ColumnIndex()
	vAssert(len(ci.NullPages) == 0 && len(ci.MinValues) == 0, "column indexer is reset")
	vCover("reset")
}

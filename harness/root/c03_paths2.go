//go:build verif

package parquet

// C03.K2/K3 continued: embedded structs (two levels, not at offset zero),
// pointers to structs, optional lists, nested lists and maps; two rows per
// batch so that the typed path walks its sparse arrays with a stride.

type verifEmb2 struct {
	P int32 `parquet:"p"`
	Q int64 `parquet:"q,optional"`
}

type verifEmb1 struct {
	Pad int64 `parquet:"pad"`
	verifEmb2
}

type verifRecB struct {
	First int32 `parquet:"first"`
	verifEmb1
	Last int32 `parquet:"last"`
}

type verifRecC struct {
	K   int32            `parquet:"k"`
	Ptr *verifEmb2       `parquet:"ptr"`
	Opt []int32          `parquet:"opt,optional"`
	NL  [][]int32        `parquet:"nl,list"`
	M   map[string]int32 `parquet:"m"`
}

func verifRowsByReflection(schema *Schema, n int, at func(i int) any) []Row {
	out := make([]Row, n)
	for i := range out {
		out[i] = schema.Deconstruct(nil, at(i)).Clone()
	}
	return out
}

func verifObserveRows(rows []Row) {
	for _, r := range rows {
		vObserveInt("rowLen", int64(len(r)))
		for _, x := range r {
			vObserveInt("col", int64(x.Column()))
			vObserveInt("rep", int64(x.RepetitionLevel()))
			vObserveInt("def", int64(x.DefinitionLevel()))
			switch x.Kind() {
			case ByteArray, FixedLenByteArray:
				vObserveBytes("bytes", x.byteArray())
			default:
				vObserveInt("u64", int64(x.u64))
			}
		}
	}
}

func VerifH_C03_embeddedStructPaths() {
	vUnwind(256)
	n := vChoose("rows", 1, 2)
	vals := make([]verifRecB, n)
	for i := range vals {
		vals[i].First = vI32("first")
		vals[i].Pad = vI64("pad")
		vals[i].P = vI32("p")
		vals[i].Q = vI64("q")
		vals[i].Last = vI32("last")
	}
	schema := SchemaOf(vals[0])
	refl := verifRowsByReflection(schema, n, func(i int) any { return &vals[i] })
	typed, ok := verifRowsOfBuffer(vals)
	if !ok {
		return
	}
	verifObserveRows(refl)
	for i := range vals {
		vAssert(verifSameRow(refl[i], typed[i]), "typed and reflection paths shred embedded structs into the same column streams")
		// the leaf columns in schema order: first, pad, p, q, last
		vAssert(len(refl[i]) == 5, "one value per leaf")
		if len(refl[i]) == 5 {
			vAssert(refl[i][0].Int32() == vals[i].First && refl[i][1].Int64() == vals[i].Pad && refl[i][2].Int32() == vals[i].P && refl[i][4].Int32() == vals[i].Last, "each leaf carries its own field")
			vAssert(refl[i][3].IsNull() == (vals[i].Q == 0), "an optional scalar is null exactly when it is zero")
		}
		var back verifRecB
		if err := schema.Reconstruct(&back, typed[i]); err != nil {
			vAssert(false, "the shredded row re-assembles")
			return
		}
		vAssert(back == vals[i], "re-assembly gives back the value")
	}
	vCover("embedded")
}

func VerifH_C03_nestedPaths() {
	vUnwind(256)
	n := vChoose("rows", 1, 1+vTier())
	vals := make([]verifRecC, n)
	ordered := true
	for i := range vals {
		v := &vals[i]
		v.K = vI32("k")
		if vChoose("ptr", 0, 1) == 1 {
			v.Ptr = &verifEmb2{P: vI32("p"), Q: vI64("q")}
		}
		switch vChoose("opt", 0, 2) {
		case 1:
			v.Opt = []int32{}
		case 2:
			v.Opt = []int32{vI32("o0"), vI32("o1")}
		}
		switch vChoose("nl", 0, 3) {
		case 1:
			v.NL = [][]int32{}
		case 2:
			v.NL = [][]int32{{}, {vI32("n0")}}
		case 3:
			v.NL = [][]int32{{vI32("n0"), vI32("n1")}, nil}
		}
		switch vChoose("m", 0, 2) {
		case 1:
			v.M = map[string]int32{"a": vI32("ma")}
		case 2:
			// Entries of a Go map have no order: Deconstruct walks the map in
			// Go's iteration order while the typed path sorts the keys, so the
			// streams are only compared for maps of at most one entry.
			v.M = map[string]int32{"b": vI32("mb"), "a": vI32("ma")}
			ordered = false
		}
	}
	schema := SchemaOf(vals[0])
	refl := verifRowsByReflection(schema, n, func(i int) any { return &vals[i] })
	typed, ok := verifRowsOfBuffer(vals)
	if !ok {
		return
	}
	if ordered {
		verifObserveRows(refl)
	}
	for i := range vals {
		if ordered {
			vAssert(verifSameRow(refl[i], typed[i]), "typed and reflection paths shred nested values into the same column streams")
		} else {
			vAssert(len(refl[i]) == len(typed[i]), "typed and reflection paths shred nested values into streams of the same length")
		}
		var back verifRecC
		if err := schema.Reconstruct(&back, refl[i]); err != nil {
			vAssert(false, "the shredded row re-assembles")
			return
		}
		v := &vals[i]
		vAssert(back.K == v.K, "scalar re-assembles")
		vAssert((back.Ptr == nil) == (v.Ptr == nil), "pointer nil-ness re-assembles")
		if v.Ptr != nil && back.Ptr != nil {
			vAssert(*back.Ptr == *v.Ptr, "pointer target re-assembles")
		}
		vAssert(len(back.Opt) == len(v.Opt), "optional list length re-assembles")
		for j := range v.Opt {
			if j < len(back.Opt) {
				vAssert(back.Opt[j] == v.Opt[j], "optional list elements re-assemble")
			}
		}
		vAssert(len(back.NL) == len(v.NL), "nested list length re-assembles")
		for j := range v.NL {
			if j < len(back.NL) {
				vAssert(len(back.NL[j]) == len(v.NL[j]), "inner list length re-assembles")
				for k := range v.NL[j] {
					if k < len(back.NL[j]) {
						vAssert(back.NL[j][k] == v.NL[j][k], "inner list elements re-assemble")
					}
				}
			}
		}
		vAssert(len(back.M) == len(v.M), "map size re-assembles")
		for k, x := range v.M {
			y, ok := back.M[k]
			vAssert(ok && y == x, "map entries re-assemble")
		}
	}
	vCover("nested")
}

// maps whose values are maps: re-assembly gives every outer entry its own inner map
type verifRecMM struct {
	K  int32                       `parquet:"k"`
	MM map[string]map[string]int64 `parquet:"mm"`
}

func VerifH_C03_nestedMapsReassemble() {
	vUnwind(512)
	v := verifRecMM{K: vI32("k")}
	switch vChoose("outer", 0, 2) {
	case 1:
		v.MM = map[string]map[string]int64{"a": {"x": vI64("ax")}}
	case 2:
		v.MM = map[string]map[string]int64{"a": {"x": vI64("ax")}, "b": {"y": vI64("by"), "z": 3}}
	}
	schema := SchemaOf(v)
	row := schema.Deconstruct(nil, &v)
	var back verifRecMM
	if err := schema.Reconstruct(&back, row); err != nil {
		vAssert(false, "the shredded row re-assembles")
		return
	}
	vAssert(back.K == v.K && len(back.MM) == len(v.MM), "outer map size re-assembles")
	// fixed key order: the assertion log must not depend on Go's map iteration order
	for _, ok := range []string{"a", "b"} {
		inner, in := v.MM[ok]
		if !in {
			continue
		}
		got, present := back.MM[ok]
		vAssert(present && len(got) == len(inner), "every outer entry has an inner map of its own size")
		for _, ik := range []string{"x", "y", "z"} {
			x, in := inner[ik]
			if !in {
				continue
			}
			y, has := got[ik]
			vAssert(has && y == x, "inner map entries re-assemble under their own outer key")
		}
	}
	vCover("nested maps")
}

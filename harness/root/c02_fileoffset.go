//go:build verif

package parquet

import "bytes"

// C02.K2 (part): the row group's file_offset recorded in the footer points at
// the first byte of the row group, after the 4-byte magic, also when the first
// row group is written before anything else (Flush / WriteRowGroup before
// Close). Real newWriter, writeFileHeader and writeRowGroup; page flushing is
// stubbed (no page is buffered).
//
//verif:replace (*ColumnWriter).Flush => verifC02NopErr
//verif:replace (*ColumnWriter).flushFilterPages => verifC02NopErr
//verif:replace (*ColumnWriter).totalRowCount => verifC02OneRow

func verifC02NopErr(c *ColumnWriter) error { return nil }
func verifC02OneRow(c *ColumnWriter) int64 { return 1 }

func VerifH_C02_rowGroupFileOffset() {
	vUnwind(64)
	sink := new(bytes.Buffer)
	cfg := DefaultWriterConfig()
	cfg.Schema = NewSchema("root", Group{"a": Leaf(Int64Type)})
	if vChoose("writeBuffer", 0, 1) == 0 {
		cfg.WriteBufferSize = 0
	}
	w := newWriter(sink, cfg)
	groups := vChoose("rowGroups", 1, 2)
	for g := 0; g < groups; g++ {
		before := w.writer.offset
		if _, err := w.writeRowGroup(w.currentRowGroup, nil, nil); err != nil {
			vAssert(false, "recording a row group succeeds")
			return
		}
		want := before
		if want == 0 {
			want = 4 // the magic comes first
		}
		vAssert(len(w.rowGroups) == g+1, "row group recorded")
		if len(w.rowGroups) == g+1 {
			vAssert(w.rowGroups[g].FileOffset == want, "file_offset is the offset of the first byte of the row group")
			vAssert(w.rowGroups[g].FileOffset >= 4, "no row group starts inside the magic")
			vAssert(w.rowGroups[g].Ordinal == int16(g), "row group ordinal")
		}
	}
	vAssert(w.writer.offset >= 4, "the magic was written")
	vCover("offsets")
}

// native re-enactment: Flush before Close, footer inspected
func VerifS_C02_rowGroupFileOffset() {
	type row struct{ A int64 }
	buf := new(bytes.Buffer)
	w := NewGenericWriter[row](buf)
	w.Write([]row{{1}})
	if err := w.Flush(); err != nil {
		vAssert(false, "scenario: flush")
		return
	}
	w.Write([]row{{2}})
	if err := w.Close(); err != nil {
		vAssert(false, "scenario: close")
		return
	}
	f, err := OpenFile(bytes.NewReader(buf.Bytes()), int64(buf.Len()))
	if err != nil {
		vAssert(false, "scenario: open")
		return
	}
	md := f.Metadata()
	vAssert(len(md.RowGroups) == 2 && md.RowGroups[0].FileOffset == 4, "file_offset of the first row group is 4")
	if len(md.RowGroups) == 2 {
		vAssert(md.RowGroups[1].FileOffset > md.RowGroups[0].FileOffset, "file offsets increase")
	}
	vCover("scenario")
}

//go:build verif

package parquet

// C17.K1 (part): a bloom filter buffer retained across row groups / Reset is
// zeroed when it is resized for the next row group, whatever it held before.
func VerifH_C17_bloomResizeZeroes() {
	c := &ColumnWriter{columnFilter: SplitBlockFilter(10, "x")}
	capBlocks := vChoose("retainedBlocks", 0, 2)
	old := vBytes("old", 32*capBlocks)
	c.filter = old[:0] // ColumnWriter.reset truncates and keeps the capacity
	n := int64(vChoose("numValues", 1, 60))
	c.resizeBloomFilter(n)
	want := c.columnFilter.Size(n)
	vAssert(len(c.filter) == want && want > 0 && want%32 == 0, "filter has the configured size, a positive multiple of the block size")
	vAssert(vBytesEq(c.filter, make([]byte, len(c.filter))), "resized filter starts empty")
	vCover("resized")
}

//go:build verif

package bloom

import "bytes"

// C07.K1 split-block filter algebra: whatever the filter held before, a key
// that was inserted is found, by the in-memory filter and by the reader that
// probes the serialised bytes, and stays found after more inserts.
func VerifH_C07_filterAlgebra() {
	nb := vChoose("blocks", 1, 2+vTier())
	f := make(SplitBlockFilter, nb)
	vHavoc("prior", f.Bytes())
	x, y := vU64("x"), vU64("y")
	f.Insert(x)
	vAssert(f.Check(x), "inserted key is found")
	ok, err := CheckSplitBlock(bytes.NewReader(f.Bytes()), int64(len(f.Bytes())), x)
	vAssert(err == nil, "reader probe succeeds")
	vAssert(ok, "inserted key is found through the serialised bytes")
	f.InsertBulk([]uint64{y})
	vAssert(f.Check(x), "key still found after another insert")
	vAssert(f.Check(y), "bulk-inserted key is found")
	vCover("algebra")
}

//go:build verif

package parquet

import (
	"github.com/parquet-go/parquet-go/encoding"
	"github.com/parquet-go/parquet-go/format"
)

// C02.K1: per-page accounting of a column chunk. For a sequence of pages with
// symbolic header sizes, body sizes, row/value/null counts, the offset index
// and the chunk totals recorded by ColumnWriter.recordPageStats describe
// exactly those pages.

type verifStatPage struct {
	Page
	rows, values, nulls int64
}

func (p *verifStatPage) NumRows() int64                     { return p.rows }
func (p *verifStatPage) NumValues() int64                   { return p.values }
func (p *verifStatPage) NumNulls() int64                    { return p.nulls }
func (p *verifStatPage) Bounds() (min, max Value, ok bool)  { return Value{}, Value{}, false }
func (p *verifStatPage) RepetitionLevels() []byte           { return nil }
func (p *verifStatPage) DefinitionLevels() []byte           { return nil }
func (p *verifStatPage) Type() Type                         { return Int32Type }
func (p *verifStatPage) Size() int64                        { return 0 }
func (p *verifStatPage) Data() encoding.Values              { return encoding.Int32Values(nil) }

func VerifH_C02_pageAccounting() {
	vUnwind(32)
	c := &ColumnWriter{
		columnIndex: newInt32ColumnIndexer(),
		columnChunk: &format.ColumnChunk{},
		offsetIndex: &format.OffsetIndex{},
		columnType:  Int32Type,
	}
	hasDict := vChoose("dictionary", 0, 1) == 1
	var wantComp, wantUncomp int64
	if hasDict {
		hs, body := int32(vU8("dictHeader")), int32(vU16("dictBody"))
		h := &format.PageHeader{Type: format.DictionaryPage, CompressedPageSize: body, UncompressedPageSize: body}
		h.DictionaryPageHeader.Valid = true
		c.recordPageStats(hs, h, nil)
		wantComp += int64(hs) + int64(body)
		wantUncomp += int64(hs) + int64(body)
	}
	dictBytes := wantComp
	P := vChoose("pages", 1, 3)
	var rows, values, nulls int64
	type exp struct{ off, first int64; size int32 }
	want := make([]exp, P)
	for i := 0; i < P; i++ {
		hs := int32(vU8("header"))
		comp, uncomp := int32(vU16("compressed")), int32(vU16("uncompressed"))
		pr, pv, pn := int64(vU8("rows")), int64(vU16("values")), int64(vU8("nulls"))
		h := &format.PageHeader{Type: format.DataPageV2, CompressedPageSize: comp, UncompressedPageSize: uncomp}
		h.DataPageHeaderV2.Valid = true
		h.DataPageHeaderV2.V.Encoding = format.Plain
		want[i] = exp{off: wantComp, first: rows, size: hs + comp}
		c.recordPageStats(hs, h, &verifStatPage{rows: pr, values: pv, nulls: pn})
		wantComp += int64(hs) + int64(comp)
		wantUncomp += int64(hs) + int64(uncomp)
		rows += pr
		values += pv
		nulls += pn
	}
	_ = dictBytes
	vAssert(len(c.offsetIndex.PageLocations) == P, "one page location per data page")
	for i := 0; i < P && i < len(c.offsetIndex.PageLocations); i++ {
		loc := c.offsetIndex.PageLocations[i]
		vAssert(loc.Offset == want[i].off, "page offset is the sum of the sizes of everything stored before it in the chunk")
		vAssert(loc.FirstRowIndex == want[i].first, "first row index is the sum of the rows of earlier pages")
		vAssert(loc.CompressedPageSize == want[i].size, "compressed page size is header + body")
	}
	md := &c.columnChunk.MetaData
	vAssert(md.NumValues == values, "chunk value count is the sum over pages")
	vAssert(md.Statistics.NullCount == nulls, "chunk null count is the sum over pages")
	vAssert(md.TotalCompressedSize == wantComp && md.TotalUncompressedSize == wantUncomp, "chunk sizes are the sums over pages incl. headers and dictionary")
	vAssert(c.numRows == rows, "row count is the sum over pages")
	var dataPages, dictPages int32
	for _, st := range md.EncodingStats {
		if st.PageType == format.DictionaryPage {
			dictPages += st.Count
		} else {
			dataPages += st.Count
		}
	}
	vAssert(int(dataPages) == P, "encoding stats count every data page")
	vAssert((dictPages == 1) == hasDict && dictPages <= 1, "encoding stats count the dictionary page")
	vCover("accounted")
}

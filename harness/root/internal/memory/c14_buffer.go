//go:build verif

package memory

import (
	"errors"
	"io"
)

// C14.K1: the chunked page buffer that holds a column's pages until the row
// group is written. Data written to it is streamed to the sink by WriteTo
// (io.Copy in writeRowGroup): every byte reaches the sink in order, and a sink
// failure at any offset surfaces as an error with an exact byte count.

var errVerifSink = errors.New("model sink: write failed")

type verifSink struct {
	got     []byte
	limit   int
	refused bool
}

func (s *verifSink) Write(p []byte) (int, error) {
	room := s.limit - len(s.got)
	if room >= len(p) {
		s.got = append(s.got, p...)
		return len(p), nil
	}
	if room < 0 {
		room = 0
	}
	s.got = append(s.got, p[:room]...)
	s.refused = true
	return room, errVerifSink
}

func VerifH_C14_pageBufferWriteTo() {
	vUnwind(64)
	b := NewBuffer(vChoose("chunkSize", 2, 4))
	n1, n2 := vChoose("len1", 0, 5), vChoose("len2", 0, 4)
	d1, d2 := vBytes("d1", n1), vBytes("d2", n2)
	all := append(append([]byte(nil), d1...), d2...)
	w1, e1 := b.Write(d1)
	w2, e2 := b.Write(d2)
	vAssert(e1 == nil && e2 == nil && w1 == n1 && w2 == n2, "buffer accepts the writes")
	pos, err := b.Seek(0, io.SeekStart)
	vAssert(err == nil && pos == 0, "rewind")
	sink := &verifSink{limit: vChoose("faultAt", 0, 10)}
	written, err := b.WriteTo(sink)
	vAssert(written == int64(len(sink.got)), "reported count equals the bytes the sink accepted")
	vAssert((err != nil) == sink.refused, "a sink failure surfaces as an error, and only then")
	if !sink.refused {
		vAssert(written == int64(len(all)), "everything is written when the sink accepts it")
	}
	k := len(sink.got)
	vAssert(k <= len(all) && vBytesEq(sink.got, all[:k]), "the sink receives the buffered bytes in order")
	// reading back gives the same bytes
	b.Seek(0, io.SeekStart)
	rd := make([]byte, len(all)+1)
	total := 0
	for i := 0; i < 8 && total < len(rd); i++ {
		n, err := b.Read(rd[total:])
		total += n
		if err != nil {
			vAssert(err == io.EOF, "read ends with EOF")
			break
		}
	}
	vAssert(total == len(all) && vBytesEq(rd[:total], all), "Read returns what was written")
	vCover("buffer")
}

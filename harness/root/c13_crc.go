//go:build verif

package parquet

import (
	"bufio"
	"bytes"
	"errors"

	"github.com/parquet-go/parquet-go/format"
)

// C13.K1: the checksum the writer stores is checked by the page reader and
// discriminates every non-zero change of the stored body.
// Precondition crc != 0: a stored checksum of 0 cannot be told from "absent"
// in this implementation (K3 below asks the solver for exactly that case).

func verifPagesFor() *FilePages {
	return &FilePages{chunk: &FileColumnChunk{column: &Column{path: columnPath{"root", "col"}}}}
}

func verifWriterCRC(rep, def, page []byte) uint32 {
	wb := &writerBuffers{repetitions: rep, definitions: def, page: page}
	return wb.crc32()
}

func VerifH_C13_crcDetects() {
	n := vChoose("n", 1, 3+vTier())
	split1 := vChoose("repLen", 0, 1)
	body := vBytes("body", n)
	if split1 > n {
		split1 = n
	}
	// the writer checksums rep || def || page in the order they are stored
	crc := verifWriterCRC(body[:split1], nil, body[split1:])
	vAssume(crc != 0)
	mask := vBytes("flip", n)
	vAssume(!vBytesEq(mask, make([]byte, n)))
	stored := make([]byte, n)
	for i := range stored {
		stored[i] = body[i] ^ mask[i]
	}
	f := verifPagesFor()
	header := &format.PageHeader{Type: format.DataPage, CompressedPageSize: int32(n), UncompressedPageSize: int32(n), CRC: int32(crc)}
	buf, err := f.readPage(header, bufio.NewReader(bytes.NewReader(stored)))
	vAssert(err != nil, "an altered body is rejected")
	vAssert(buf == nil, "no data is returned for an altered body")
	if err != nil {
		vAssert(errors.Is(err, ErrCorrupted), "the error identifies corruption")
	}
	// and the unaltered body is accepted
	ok, err := f.readPage(header, bufio.NewReader(bytes.NewReader(body)))
	vAssert(err == nil && ok != nil, "the unaltered body is accepted")
	if ok != nil {
		vAssert(vBytesEq(ok.data.Slice(), body), "accepted bytes are the stored bytes")
	}
	vCover("checked")
}

// C13.K3: complement of the precondition. A body whose CRC-32 is zero exists for
// every length >= 4; the reader then skips verification. Reported under the
// known-finding protocol, not silenced.
func VerifH_C13_crcZeroHole() {
	n := 4
	body := vBytes("body", n)
	crc := verifWriterCRC(nil, nil, body)
	vAssume(crc == 0)
	mask := vBytes("flip", n)
	vAssume(!vBytesEq(mask, make([]byte, n)))
	stored := make([]byte, n)
	for i := range stored {
		stored[i] = body[i] ^ mask[i]
	}
	f := verifPagesFor()
	header := &format.PageHeader{Type: format.DataPage, CompressedPageSize: int32(n), UncompressedPageSize: int32(n), CRC: int32(crc)}
	_, err := f.readPage(header, bufio.NewReader(bytes.NewReader(stored)))
	vAssert(err != nil, "an altered body whose stored checksum is zero is rejected")
	vCover("checked")
}

//go:build verif

package parquet

import "bytes"

// C12.K0 on whole files: a file written with one Go type is read through other
// types whose schemas drop, reorder and add columns (parquet.Read[T]); columns
// present on both sides come back with the source values and nesting, added
// columns come back nil/zero, row count and order are unchanged, and an
// incompatible target is an error. ConvertRowGroup advertises only an ordering
// that really holds for the converted rows: a prefix of the source's sorting
// columns that survived the conversion.

type verifSrcK struct {
	A int64   `parquet:"a"`
	B string  `parquet:"b,plain"`
	C []int32 `parquet:"c"`
	D int32   `parquet:"d,optional"`
}

type verifSubsetK struct { // drops b and d, reorders
	C []int32 `parquet:"c"`
	A int64   `parquet:"a"`
}

type verifAddedK struct { // adds an optional column and a required one
	A int64  `parquet:"a"`
	X *int32 `parquet:"x,optional"`
	B string `parquet:"b,plain"`
	Y int64  `parquet:"y"`
}

type verifBadK struct { // b holds text that is not a number: not convertible to int64
	B int64 `parquet:"b"`
}

func verifRowsK() []verifSrcK {
	return []verifSrcK{
		{A: int64(vI8("a0")), B: "x", C: []int32{1, 2}, D: 5},
		{A: 7, B: vString("b1", 1), C: nil, D: 0},
		{A: 9, B: "z", C: []int32{int32(vI8("c2"))}, D: 3},
	}
}

func VerifH_C12_readThroughOtherSchema() {
	vUnwind(1 << 16)
	rows := verifRowsK()
	// one symbolic column per path (page CRCs)
	switch vChoose("symbolicColumn", 0, 2) {
	case 0:
		rows[1].B, rows[2].C = "y", []int32{4}
	case 1:
		rows[0].A, rows[2].C = 3, []int32{4}
	case 2:
		rows[0].A, rows[1].B = 3, "y"
	}
	buf := new(bytes.Buffer)
	w := NewGenericWriter[verifSrcK](buf)
	if _, err := w.Write(rows); err != nil {
		vAssert(false, "rows are accepted")
		return
	}
	if err := w.Close(); err != nil {
		vAssert(false, "file closes")
		return
	}
	data := buf.Bytes()
	switch vChoose("target", 0, 2) {
	case 0:
		got, err := Read[verifSubsetK](bytes.NewReader(data), int64(len(data)))
		vAssert(err == nil && len(got) == len(rows), "subset target: every row is read")
		for i := range rows {
			if i < len(got) {
				vAssert(got[i].A == rows[i].A && len(got[i].C) == len(rows[i].C), "subset target: kept columns carry the source values")
				for j := range rows[i].C {
					if j < len(got[i].C) {
						vAssert(got[i].C[j] == rows[i].C[j], "subset target: list elements carry the source values")
					}
				}
			}
		}
	case 1:
		got, err := Read[verifAddedK](bytes.NewReader(data), int64(len(data)))
		vAssert(err == nil && len(got) == len(rows), "extended target: every row is read")
		for i := range rows {
			if i < len(got) {
				vAssert(got[i].A == rows[i].A && got[i].B == rows[i].B, "extended target: common columns carry the source values")
				vAssert(got[i].X == nil && got[i].Y == 0, "extended target: added columns are null or zero")
			}
		}
	case 2:
		// (the library converts between scalar types where the values allow it, so
		// the incompatibility has to be in the values: "x" is not an int64)
		got, err := Read[verifBadK](bytes.NewReader(data), int64(len(data)))
		vAssert(err != nil, "a target the values cannot be converted to is rejected")
		_ = got
	}
	vCover("read")
}

// sorting metadata of converted row groups
type verifSortedK struct {
	A int64 `parquet:"a"`
	B int64 `parquet:"b"`
	C int64 `parquet:"c"`
}

type verifSortedDropA struct {
	B int64 `parquet:"b"`
	C int64 `parquet:"c"`
}

type verifSortedDropB struct {
	A int64 `parquet:"a"`
	C int64 `parquet:"c"`
}

func VerifH_C12_convertedSortingColumns() {
	vUnwind(1 << 16)
	rows := []verifSortedK{{1, vI64("b0"), 10}, {2, vI64("b1"), 20}, {3, vI64("b2"), 30}}
	src := NewGenericBuffer[verifSortedK](SortingRowGroupConfig(SortingColumns(Ascending("a"), Ascending("b"))))
	if _, err := src.Write(rows); err != nil {
		vAssert(false, "buffer accepts rows")
		return
	}
	var target *Schema
	dropA := vChoose("drop", 0, 1) == 0
	if dropA {
		target = SchemaOf(verifSortedDropA{})
	} else {
		target = SchemaOf(verifSortedDropB{})
	}
	conv, err := Convert(target, src.Schema())
	if err != nil {
		vAssert(false, "schemas convert")
		return
	}
	rg := ConvertRowGroup(src, conv)
	sc := rg.SortingColumns()
	if dropA {
		// rows are ordered by (a, b); without a nothing is known about b alone
		vAssert(len(sc) == 0, "dropping the leading sorting column leaves no advertised ordering")
	} else {
		vAssert(len(sc) <= 1, "sorting columns after a dropped one are not advertised")
		if len(sc) == 1 {
			vAssert(len(sc[0].Path()) == 1 && sc[0].Path()[0] == "a" && !sc[0].Descending(), "the surviving prefix is advertised as it was")
		}
	}
	// whatever is advertised must hold for the converted rows
	rr := rg.Rows()
	out := make([]Row, 4)
	n, _ := rr.ReadRows(out)
	rr.Close()
	vAssert(n == len(rows), "conversion keeps the row count")
	for _, c := range sc {
		col, ok := target.Lookup(c.Path()...)
		if !ok {
			vAssert(false, "advertised sorting column exists in the target")
			continue
		}
		for i := 1; i < n; i++ {
			x, y := out[i-1][col.ColumnIndex].Int64(), out[i][col.ColumnIndex].Int64()
			if len(sc) == 1 {
				vAssert(x <= y, "rows are ordered by the advertised sorting column")
			}
		}
	}
	vCover("converted")
}

// nested group whose fields are permuted in the target: values follow the names
type verifPointXY struct {
	X int64 `parquet:"x"`
	Y int64 `parquet:"y"`
}

type verifPointYX struct {
	Y int64 `parquet:"y"`
	X int64 `parquet:"x"`
}

type verifSrcNested struct {
	ID int64        `parquet:"id"`
	P  verifPointXY `parquet:"p"`
}

type verifDstNested struct {
	ID int64        `parquet:"id"`
	P  verifPointYX `parquet:"p"`
}

func VerifH_C12_nestedFieldPermutation() {
	vUnwind(1 << 16)
	vAbstractCRCFixedWidth() // page checksums are not the subject
	rows := []verifSrcNested{{1, verifPointXY{int64(vI8("x0")), int64(vI8("y0"))}}, {2, verifPointXY{7, 9}}}
	buf := new(bytes.Buffer)
	w := NewGenericWriter[verifSrcNested](buf)
	if _, err := w.Write(rows); err != nil {
		vAssert(false, "rows are accepted")
		return
	}
	if err := w.Close(); err != nil {
		vAssert(false, "file closes")
		return
	}
	data := buf.Bytes()
	if vChoose("via", 0, 1) == 0 {
		got, err := Read[verifDstNested](bytes.NewReader(data), int64(len(data)))
		vAssert(err == nil && len(got) == len(rows), "every row is read")
		for i := range rows {
			if i < len(got) {
				vAssert(got[i].ID == rows[i].ID && got[i].P.X == rows[i].P.X && got[i].P.Y == rows[i].P.Y, "fields permuted inside a nested group keep their values")
			}
		}
	} else {
		// CopyRows into a buffer of the target type converts when the schemas differ
		f, err := OpenFile(bytes.NewReader(data), int64(len(data)))
		if err != nil {
			vAssert(false, "file opens")
			return
		}
		dst := NewGenericBuffer[verifDstNested]()
		rr := f.RowGroups()[0].Rows()
		n, err := CopyRows(dst, rr)
		rr.Close()
		vAssert(err == nil && n == int64(len(rows)), "rows are copied")
		out := make([]verifDstNested, len(rows)+1)
		r := NewGenericRowGroupReader[verifDstNested](dst)
		k, _ := r.Read(out)
		r.Close()
		vAssert(k == len(rows), "copied rows are read")
		for i := 0; i < k && i < len(rows); i++ {
			vAssert(out[i].ID == rows[i].ID && out[i].P.X == rows[i].P.X && out[i].P.Y == rows[i].P.Y, "CopyRows keeps the values of fields permuted inside a nested group")
		}
	}
	vCover("permuted")
}

// C12.K7: MergeRowGroups with an explicit target schema converts every input to
// it: inputs with fewer columns get nulls (optional) or zeros (required) in the
// columns they lack, common columns keep their values, and no row is lost or
// reordered within its input.
type verifWideK struct {
	A int64  `parquet:"a"`
	B int32  `parquet:"b,optional"`
	C string `parquet:"c"`
}

type verifNarrowK struct {
	A int64 `parquet:"a"`
}

func VerifH_C12_mergeIntoSchema() {
	vUnwind(1 << 14)
	wide := NewGenericBuffer[verifWideK]()
	narrow := NewGenericBuffer[verifNarrowK]()
	w := []verifWideK{{A: int64(vI8("a0")), B: 5, C: "x" + vString("c0", 1)}, {A: 40, B: int32(vI8("b1")), C: "y"}}
	nrw := []verifNarrowK{{A: int64(vI8("a2"))}}
	if _, err := wide.Write(w); err != nil {
		vAssert(false, "wide buffer accepts rows")
		return
	}
	if _, err := narrow.Write(nrw); err != nil {
		vAssert(false, "narrow buffer accepts rows")
		return
	}
	target := SchemaOf(verifWideK{})
	inputs := []RowGroup{wide, narrow}
	if vChoose("narrowFirst", 0, 1) == 1 {
		inputs = []RowGroup{narrow, wide}
	}
	m, err := MergeRowGroups(inputs, target)
	if err != nil {
		vAssert(false, "row groups with compatible schemas merge")
		return
	}
	vAssert(m.NumRows() == 3, "the merge holds every row")
	r := NewGenericRowGroupReader[verifWideK](m)
	out := make([]verifWideK, 4)
	n, _ := r.Read(out)
	r.Close()
	vAssert(n == 3, "every row is read from the merge")
	if n != 3 {
		return
	}
	// without sorting columns the merge is the concatenation of its inputs
	var wideRows []verifWideK
	var narrowRow verifWideK
	if inputs[0] == RowGroup(narrow) {
		narrowRow, wideRows = out[0], out[1:3]
	} else {
		wideRows, narrowRow = out[0:2], out[2]
	}
	for i := range w {
		vAssert(wideRows[i] == w[i], "rows of the input that has every column keep all their values")
	}
	vAssert(narrowRow.A == nrw[0].A, "common column of the narrower input keeps its value")
	vAssert(narrowRow.B == 0 && narrowRow.C == "", "columns the narrower input lacks come back null or zero")
	vCover("merged into schema")
}

//go:build verif

package parquet

import (
	"bufio"
	"bytes"
	"errors"
	"io"

	"github.com/parquet-go/parquet-go/encoding/thrift"
	"github.com/parquet-go/parquet-go/format"
)

// C08.K1: the seek/read state machine of FilePages over a real byte stream
// (real io.SectionReader and bufio.Reader, real readPage). Only the Thrift
// header decode and the page body decoders are replaced:
//   - thrift.Decoder.Decode yields the header of the page that starts at the
//     current stream position (and fails if the stream is not positioned at a
//     page start), consuming the header bytes;
//   - readDataPageV2 returns a model page identified by the body bytes read.
// Oracle: after the last SeekToRow(k) the rows returned by successive ReadPage
// calls are rows k, k+1, ... of the column chunk.
//
//verif:replace (*github.com/parquet-go/parquet-go/encoding/thrift.Decoder).Decode => verifFPDecodeHeader
//verif:replace (*FilePages).readDataPageV2 => verifFPReadDataPage
//verif:replace (*FilePages).readEncryptedPage => verifFPReadEncryptedPage

const verifHdrLen = 3

type verifPageInfo struct {
	offset   int64 // offset of the header in the stream
	firstRow int64
	rows     int64
}

var (
	verifFP       *FilePages
	verifFPTable  []verifPageInfo
	verifFPBroken bool
)

func verifFPStreamPos(f *FilePages) int64 {
	p, _ := f.section.Seek(0, io.SeekCurrent)
	return p - int64(f.rbuf.Buffered())
}

func verifFPDecodeHeader(d *thrift.Decoder, v any) error {
	h, ok := v.(*format.PageHeader)
	if !ok {
		return errors.New("unexpected decode target")
	}
	f := verifFP
	pos := verifFPStreamPos(f)
	end := verifFPTable[len(verifFPTable)-1]
	if pos >= end.offset+verifHdrLen+end.rows {
		return io.EOF
	}
	for i, pg := range verifFPTable {
		if pg.offset == pos {
			if _, err := f.rbuf.Discard(verifHdrLen); err != nil {
				return err
			}
			*h = format.PageHeader{Type: format.DataPageV2, CompressedPageSize: int32(pg.rows), UncompressedPageSize: int32(pg.rows)}
			h.DataPageHeaderV2.Valid = true
			h.DataPageHeaderV2.V.NumRows = int32(pg.rows)
			h.DataPageHeaderV2.V.NumValues = int32(pg.rows)
			_ = i
			return nil
		}
	}
	verifFPBroken = true
	return errors.New("stream is not positioned at the start of a page")
}

// model page: rows [first, first+n) of the column chunk
type verifModelPage struct {
	Page
	first, n int64
}

func (p *verifModelPage) NumRows() int64            { return p.n }
func (p *verifModelPage) NumValues() int64          { return p.n }
func (p *verifModelPage) RepetitionLevels() []byte  { return nil }
func (p *verifModelPage) Slice(i, j int64) Page {
	return &verifModelPage{first: p.first + i, n: j - i}
}

func verifFPReadDataPage(f *FilePages, header *format.PageHeader, page *buffer[byte]) (Page, error) {
	// the body of page i is rows_i bytes, each holding i
	data := page.data.Slice()
	if len(data) == 0 {
		return nil, errors.New("empty body")
	}
	id := int(data[0])
	if id < 0 || id >= len(verifFPTable) || int64(len(data)) != verifFPTable[id].rows {
		verifFPBroken = true
		return nil, errors.New("page body does not match the header")
	}
	return &verifModelPage{first: verifFPTable[id].firstRow, n: verifFPTable[id].rows}, nil
}

func VerifH_C08_filePagesSeekRead() {
	vUnwind(64)
	P := vChoose("pages", 1, 3)
	table := make([]verifPageInfo, P)
	var stream []byte
	var total int64
	locs := make([]format.PageLocation, P)
	for i := 0; i < P; i++ {
		rows := int64(vChoose("pageRows", 1, 2+vTier()))
		table[i] = verifPageInfo{offset: int64(len(stream)), firstRow: total, rows: rows}
		locs[i] = format.PageLocation{Offset: int64(len(stream)), CompressedPageSize: int32(verifHdrLen + rows), FirstRowIndex: total}
		stream = append(stream, 0xEE, 0xEE, 0xEE)
		for k := int64(0); k < rows; k++ {
			stream = append(stream, byte(i))
		}
		total += rows
	}
	verifFPTable, verifFPBroken = table, false
	chunk := &FileColumnChunk{column: &Column{path: columnPath{"root", "col"}}}
	if vChoose("offsetIndex", 0, 1) == 1 {
		chunk.offsetIndex.Store(&FileOffsetIndex{index: &format.OffsetIndex{PageLocations: locs}})
	}
	f := &FilePages{chunk: chunk, lastPageIndex: -1}
	f.section = *io.NewSectionReader(bytes.NewReader(stream), 0, int64(len(stream)))
	f.rbuf = bufio.NewReaderSize(&f.section, 16) // small buffer: several pages fit, not all
	verifFP = f

	expect := int64(0)
	ops := 4 + vTier()
	for op := 0; op < ops; op++ {
		if vChoose("op", 0, 1) == 0 {
			k := int64(vChoose("seek", 0, int(total)))
			err := f.SeekToRow(k)
			if k == total && err != nil {
				// seeking to the end may be rejected as out of range
				vAssert(errors.Is(err, ErrSeekOutOfRange), "seek to the end: only ErrSeekOutOfRange is acceptable")
				return
			}
			vAssert(err == nil, "seek within the chunk succeeds")
			if err != nil {
				return
			}
			expect = k
			continue
		}
		p, err := f.ReadPage()
		if expect >= total {
			vAssert(err == io.EOF || (err == nil && p != nil && p.NumRows() == 0), "reading at the end reports EOF")
			vAssert(!verifFPBroken, "stream stays aligned on page boundaries")
			return
		}
		vAssert(!verifFPBroken, "stream stays aligned on page boundaries")
		vAssert(err == nil && p != nil, "reading a page succeeds")
		if err != nil || p == nil {
			return
		}
		mp, ok := p.(*verifModelPage)
		vAssert(ok, "page comes from the model decoder")
		if !ok {
			return
		}
		vAssert(mp.first == expect, "the page returned starts at the expected row")
		// it extends to the end of the page that contains that row
		var end int64
		for _, pg := range table {
			if expect >= pg.firstRow && expect < pg.firstRow+pg.rows {
				end = pg.firstRow + pg.rows
			}
		}
		vAssert(mp.first+mp.n == end, "the page returned ends where its source page ends")
		expect = mp.first + mp.n
	}
	vCover("history")
}

// C18.K3: encrypted columns. The page at stream position i was sealed by the
// writer with page ordinal i (row group and column ordinals fixed); the reader
// must use the same ordinal for the AAD after any history of seeks and reads.
// readEncryptedPage is replaced by a model that "authenticates" with the
// ordinal the reader currently holds.
var verifFPAuthFailed bool

func verifFPReadEncryptedPage(f *FilePages) (*format.PageHeader, *buffer[byte], error) {
	pos := verifFPStreamPos(f)
	for i, pg := range verifFPTable {
		if pg.offset == pos {
			if int(f.dec.dataPageOrd) != i {
				verifFPAuthFailed = true
				return nil, nil, errors.New("model AEAD: authentication failed (page ordinal mismatch)")
			}
			if _, err := f.rbuf.Discard(verifHdrLen); err != nil {
				return nil, nil, err
			}
			h := &format.PageHeader{Type: format.DataPageV2, CompressedPageSize: int32(pg.rows), UncompressedPageSize: int32(pg.rows)}
			h.DataPageHeaderV2.Valid = true
			h.DataPageHeaderV2.V.NumRows = int32(pg.rows)
			h.DataPageHeaderV2.V.NumValues = int32(pg.rows)
			page := buffers.get(int(pg.rows))
			if _, err := io.ReadFull(f.rbuf, page.data.Slice()); err != nil {
				page.unref()
				return nil, nil, err
			}
			f.dec.dataPageOrd++
			return h, page, nil
		}
	}
	end := verifFPTable[len(verifFPTable)-1]
	if pos >= end.offset+verifHdrLen+end.rows {
		return nil, nil, io.EOF
	}
	verifFPBroken = true
	return nil, nil, errors.New("stream is not positioned at the start of a page")
}

func VerifH_C18_ordinalsThroughSeeks() {
	vUnwind(64)
	P := vChoose("pages", 1, 3)
	table := make([]verifPageInfo, P)
	var stream []byte
	var total int64
	locs := make([]format.PageLocation, P)
	for i := 0; i < P; i++ {
		rows := int64(vChoose("pageRows", 1, 2))
		table[i] = verifPageInfo{offset: int64(len(stream)), firstRow: total, rows: rows}
		locs[i] = format.PageLocation{Offset: int64(len(stream)), CompressedPageSize: int32(verifHdrLen + rows), FirstRowIndex: total}
		stream = append(stream, 0xEE, 0xEE, 0xEE)
		for k := int64(0); k < rows; k++ {
			stream = append(stream, byte(i))
		}
		total += rows
	}
	verifFPTable, verifFPBroken, verifFPAuthFailed = table, false, false
	chunk := &FileColumnChunk{column: &Column{path: columnPath{"root", "col"}}}
	if vChoose("offsetIndex", 0, 1) == 1 {
		chunk.offsetIndex.Store(&FileOffsetIndex{index: &format.OffsetIndex{PageLocations: locs}})
	}
	f := &FilePages{chunk: chunk, lastPageIndex: -1, dec: &filePagesDecryptionState{key: []byte("k")}}
	f.section = *io.NewSectionReader(bytes.NewReader(stream), 0, int64(len(stream)))
	f.rbuf = bufio.NewReaderSize(&f.section, 16)
	verifFP = f
	expect := int64(0)
	for op := 0; op < 4; op++ {
		if vChoose("op", 0, 1) == 0 {
			k := int64(vChoose("seek", 0, int(total)-1))
			if err := f.SeekToRow(k); err != nil {
				vAssert(false, "seek within the chunk succeeds")
				return
			}
			expect = k
			continue
		}
		p, err := f.ReadPage()
		if expect >= total {
			vAssert(err == io.EOF, "reading at the end reports EOF")
			return
		}
		vAssert(!verifFPAuthFailed, "the reader opens each page with the ordinal the writer sealed it with")
		vAssert(!verifFPBroken, "stream stays aligned on page boundaries")
		vAssert(err == nil && p != nil, "reading an encrypted page of an untampered file succeeds")
		if err != nil || p == nil {
			return
		}
		mp, ok := p.(*verifModelPage)
		if !ok {
			vAssert(false, "page comes from the model decoder")
			return
		}
		vAssert(mp.first == expect, "the page returned starts at the expected row")
		expect = mp.first + mp.n
	}
	vCover("history")
}

// Native re-enactment on a real file: an int64 column whose pages have exactly
// the model's row counts (the column writer is flushed after each page), on
// which the counterexample's operation history is replayed literally through
// ColumnChunk.Pages().
func VerifS_C08_filePagesSeekRead() {
	type row struct{ A int64 }
	np, _ := vReplayVal("pages", 0)
	buf := new(bytes.Buffer)
	w := NewGenericWriter[row](buf, DataPageVersion(2))
	var firstRows []int64
	var total int64
	for i := 0; i < int(np); i++ {
		n, _ := vReplayVal("pageRows", i)
		rows := make([]row, n)
		for k := range rows {
			rows[k].A = total + int64(k)
		}
		firstRows = append(firstRows, total)
		total += int64(n)
		if _, err := w.Write(rows); err != nil {
			vAssert(false, "scenario: write")
			return
		}
		if err := w.ColumnWriters()[0].Flush(); err != nil {
			vAssert(false, "scenario: page flush")
			return
		}
	}
	if err := w.Close(); err != nil {
		vAssert(false, "scenario: close")
		return
	}
	data := buf.Bytes()
	f, err := OpenFile(bytes.NewReader(data), int64(len(data)))
	if err != nil {
		vAssert(false, "scenario: open")
		return
	}
	pages := f.RowGroups()[0].ColumnChunks()[0].Pages()
	defer pages.Close()
	expect := int64(0)
	seeks := 0
	for op := 0; ; op++ {
		kind, ok := vReplayVal("op", op)
		if !ok {
			break
		}
		if kind == 0 {
			k, _ := vReplayVal("seek", seeks)
			seeks++
			if err := pages.SeekToRow(int64(k)); err != nil {
				if int64(k) == total {
					return
				}
				vAssert(false, "scenario: seek within the chunk succeeds")
				return
			}
			expect = int64(k)
			continue
		}
		pg, err := pages.ReadPage()
		if expect >= total {
			vAssert(err == io.EOF || (err == nil && pg != nil && pg.NumRows() == 0), "reading at the end reports EOF")
			return
		}
		if err != nil || pg == nil {
			vAssert(false, "scenario: reading a page succeeds")
			return
		}
		vals := make([]Value, pg.NumValues())
		n, _ := pg.Values().ReadValues(vals)
		Release(pg)
		vAssert(n > 0 && vals[0].Int64() == expect, "the page returned starts at the expected row")
		var end int64
		for i, fr := range firstRows {
			last := total
			if i+1 < len(firstRows) {
				last = firstRows[i+1]
			}
			if expect >= fr && expect < last {
				end = last
			}
		}
		vAssert(expect+int64(n) == end, "the page returned ends where its source page ends")
		expect += int64(n)
	}
	vCover("scenario")
}

type verifKeys struct{ key []byte }

func (k verifKeys) FooterKey([]byte) ([]byte, error)           { return k.key, nil }
func (k verifKeys) ColumnKey([]string, []byte) ([]byte, error) { return k.key, nil }

// Native re-enactment of C18.K3 on a real encrypted file (real AES-GCM): pages
// with the model's row counts, the history replayed literally; every read of
// the untampered file must succeed and return the expected rows.
func VerifS_C18_ordinalsThroughSeeks() {
	type row struct{ A int64 }
	key := []byte("0123456789abcdef")
	np, _ := vReplayVal("pages", 0)
	buf := new(bytes.Buffer)
	w := NewGenericWriter[row](buf, DataPageVersion(2), WithEncryption(&EncryptionConfig{FooterKey: key, EncryptedFooter: true}))
	var total int64
	for i := 0; i < int(np); i++ {
		n, _ := vReplayVal("pageRows", i)
		rows := make([]row, n)
		for k := range rows {
			rows[k].A = total + int64(k)
		}
		total += int64(n)
		if _, err := w.Write(rows); err != nil {
			vAssert(false, "scenario: write")
			return
		}
		if err := w.ColumnWriters()[0].Flush(); err != nil {
			vAssert(false, "scenario: page flush")
			return
		}
	}
	if err := w.Close(); err != nil {
		vAssert(false, "scenario: close")
		return
	}
	data := buf.Bytes()
	f, err := OpenFile(bytes.NewReader(data), int64(len(data)), WithDecryption(verifKeys{key}))
	if err != nil {
		vAssert(false, "scenario: open")
		return
	}
	pages := f.RowGroups()[0].ColumnChunks()[0].Pages()
	defer pages.Close()
	expect := int64(0)
	seeks := 0
	for op := 0; ; op++ {
		kind, ok := vReplayVal("op", op)
		if !ok {
			break
		}
		if kind == 0 {
			k, _ := vReplayVal("seek", seeks)
			seeks++
			if err := pages.SeekToRow(int64(k)); err != nil {
				vAssert(false, "scenario: seek within the chunk succeeds")
				return
			}
			expect = int64(k)
			continue
		}
		pg, err := pages.ReadPage()
		if expect >= total {
			vAssert(err == io.EOF, "reading at the end reports EOF")
			return
		}
		vAssert(err == nil && pg != nil, "reading an encrypted page of an untampered file succeeds")
		if err != nil || pg == nil {
			return
		}
		vals := make([]Value, pg.NumValues())
		n, _ := pg.Values().ReadValues(vals)
		Release(pg)
		vAssert(n > 0 && vals[0].Int64() == expect, "the page returned starts at the expected row")
		expect += int64(n)
	}
	vCover("scenario")
}

//go:build verif

package parquet

import (
	"bytes"
	"errors"
	"io"
)

// C14.K2: source faults and truncation in the open prelude. The Thrift footer
// decode is cut off by a stub; everything before it runs on a model ReaderAt
// over symbolic bytes with an injected fault.
//
//verif:replace (*github.com/parquet-go/parquet-go/encoding/thrift.Decoder).Decode => verifC14StopDecode

var errVerifStop = errors.New("model: footer decode not modelled")

func verifC14StopDecode(d any, v any) error { return errVerifStop }

type verifSource struct {
	data      []byte
	calls     int
	faultCall int // -1: none
	short     bool
	faulted   bool
}

var errVerifSource = errors.New("model source: read failed")

func (s *verifSource) ReadAt(p []byte, off int64) (int, error) {
	call := s.calls
	s.calls++
	if off < 0 {
		return 0, errors.New("model source: negative offset")
	}
	if off >= int64(len(s.data)) {
		return 0, io.EOF
	}
	n := copy(p, s.data[off:])
	if call == s.faultCall && len(p) > 0 {
		s.faulted = true
		if s.short && n > 0 {
			return n - 1, errVerifSource
		}
		return 0, errVerifSource
	}
	if n < len(p) {
		return n, io.EOF
	}
	return n, nil
}

func VerifH_C14_openPrelude() {
	vUnwind(64)
	size := vChoose("size", 0, 14)
	data := vBytes("file", size)
	// bound the untrusted footer length so that allocation stays small
	if size >= 8 {
		vAssume(vAll(data[size-8] <= 16, data[size-7] == 0, data[size-6] == 0, data[size-5] == 0))
	}
	src := &verifSource{data: data, faultCall: vChoose("faultCall", -1, 2), short: vChoose("short", 0, 1) == 1}
	var f *File
	var err error
	panicked := vTry(func() {
		f, err = OpenFile(src, int64(size), OptimisticRead(vChoose("optimistic", 0, 1) == 1), ReadBufferSize(vChoose("bufKind", 0, 1)*12+4))
	})
	vAssert(!panicked, "OpenFile never panics on a short or faulty source")
	vAssert(!(err == nil && f != nil), "a file without a decodable footer is never opened successfully")
	vAssert(vImplies(src.faulted, err != nil), "a read error from the source surfaces as an error")
	vCover("opened")
}

// native re-enactment: every strict prefix of a real file is rejected by
// OpenFile without a panic, and a source that fails any single ReadAt call
// makes OpenFile fail.
func VerifS_C14_openPrelude() {
	type row struct{ A int64 }
	buf := new(bytes.Buffer)
	w := NewGenericWriter[row](buf)
	w.Write([]row{{1}, {2}, {3}})
	if err := w.Close(); err != nil {
		vAssert(false, "scenario: close")
		return
	}
	data := buf.Bytes()
	for cut := 0; cut < len(data); cut++ {
		var err error
		var f *File
		p := vTry(func() { f, err = OpenFile(bytes.NewReader(data[:cut]), int64(cut)) })
		vAssert(!p, "scenario: OpenFile does not panic on a truncated file")
		vAssert(err != nil || f == nil, "scenario: a strict prefix of a file is rejected")
	}
	for call := 0; call < 3; call++ {
		src := &verifSource{data: data, faultCall: call}
		var err error
		p := vTry(func() { _, err = OpenFile(src, int64(len(data))) })
		vAssert(!p, "scenario: OpenFile does not panic on a failing source")
		vAssert(vImplies(src.faulted, err != nil), "scenario: a read error surfaces")
	}
	vCover("scenario")
}

//go:build verif

package parquet

import (
	"io"
	"sort"
)

// C10.K1: sorting an optional column buffer yields a correctly ordered
// permutation. Values are key<<8|tag with distinct concrete tags, so every
// value is distinct and "permutation" is "each input appears in the output".

func verifReadAll(p Page) []Value {
	out := make([]Value, p.NumValues())
	n, err := p.Values().ReadValues(out)
	if err != nil && err != io.EOF {
		vAssert(false, "reading the page back succeeds")
	}
	return out[:n]
}

func VerifH_C10_optionalSort() {
	vUnwind(64)
	n := vChoose("n", 1, 3+vTier())
	nullMask := vChoose("nulls", 0, 1<<n-1)
	order := vChoose("nullOrdering", 0, 1)
	desc := vChoose("descending", 0, 1)
	split := vChoose("split", 0, n) // rows are written in two batches
	vals := make([]Value, n)
	keys := make([]int64, n)
	for i := 0; i < n; i++ {
		if nullMask>>i&1 == 1 {
			vals[i] = Value{}.Level(0, 0, 0)
			continue
		}
		k := int64(vI16("key"))
		keys[i] = k<<8 | int64(i)
		vals[i] = makeValueInt64(keys[i]).Level(0, 1, 0)
	}
	ord := nullOrdering(nullsGoLast)
	if order == 1 {
		ord = nullsGoFirst
	}
	var base ColumnBuffer = newInt64ColumnBuffer(Int64Type, 0, int32(n))
	if desc == 1 {
		base = &reversedColumnBuffer{base}
	}
	col := newOptionalColumnBuffer(base, 1, ord)
	if _, err := col.WriteValues(vals[:split]); err != nil {
		vAssert(false, "write")
	}
	if _, err := col.WriteValues(vals[split:]); err != nil {
		vAssert(false, "write")
	}
	sort.Sort(col)
	out := verifReadAll(col.Page())
	vAssert(len(out) == n, "sorted page has every row")
	if len(out) != n {
		return
	}
	// permutation: same number of nulls, every non-null input appears
	nulls := 0
	for i := range out {
		if out[i].IsNull() {
			nulls++
		}
	}
	wantNulls := 0
	for i := 0; i < n; i++ {
		wantNulls += nullMask >> i & 1
	}
	vAssert(nulls == wantNulls, "null count preserved")
	for i := 0; i < n; i++ {
		if nullMask>>i&1 == 1 {
			continue
		}
		hit := []bool{}
		for j := range out {
			if !out[j].IsNull() {
				hit = append(hit, out[j].Int64() == keys[i] && out[j].definitionLevel == 1)
			}
		}
		vAssert(vAny(hit...), "every written value is present after sorting with its level")
	}
	// order: nulls where declared, non-null ascending/descending
	conds := []bool{}
	for j := 0; j+1 < n; j++ {
		a, b := out[j], out[j+1]
		switch {
		case a.IsNull() && b.IsNull():
		case a.IsNull():
			conds = append(conds, order == 1) // null before value only with nulls first
		case b.IsNull():
			conds = append(conds, order == 0)
		default:
			if desc == 1 {
				conds = append(conds, a.Int64() >= b.Int64())
			} else {
				conds = append(conds, a.Int64() <= b.Int64())
			}
		}
	}
	vAssert(vAll(conds...), "rows are ordered as declared")
	vCover("sorted")
}

// C10.K2: the null orderings are strict weak orders.
func VerifH_C10_nullOrderingLaws() {
	base := newInt64ColumnBuffer(Int64Type, 0, 3)
	vs := make([]Value, 3)
	for i := range vs {
		vs[i] = makeValueInt64(vI64("v"))
	}
	base.WriteValues(vs)
	d := []byte{byte(vChoose("d0", 0, 2)), byte(vChoose("d1", 0, 2)), byte(vChoose("d2", 0, 2))}
	for _, ord := range []nullOrdering{nullsGoFirst, nullsGoLast} {
		lt := func(i, j int) bool { return ord(base, i, j, 2, d[i], d[j]) }
		vAssert(!lt(0, 0), "irreflexive")
		vAssert(vImplies(lt(0, 1), !lt(1, 0)), "asymmetric")
		vAssert(vImplies(vAll(lt(0, 1), lt(1, 2)), lt(0, 2)), "transitive")
		// incomparability is transitive (strict weak order)
		inc := func(i, j int) bool { return vAll(!lt(i, j), !lt(j, i)) }
		vAssert(vImplies(vAll(inc(0, 1), inc(1, 2)), inc(0, 2)), "incomparability is transitive")
	}
	vCover("laws")
}

// C10.K3: repeated column buffers order rows lexicographically over all the
// values of the row (what Schema.Comparator defines for such a column), and
// reordering keeps each row's values together.
func verifRefRowLess(a, b []int64) bool {
	for k := 0; k < len(a) && k < len(b); k++ {
		if a[k] != b[k] {
			return a[k] < b[k]
		}
	}
	return len(a) < len(b)
}

func VerifH_C10_repeatedSort() {
	vUnwind(64)
	nrows := vChoose("rows", 2, 2+vTier())
	rows := make([][]int64, nrows)
	var vals []Value
	for r := range rows {
		l := vChoose("len", 1, 2)
		rows[r] = make([]int64, l)
		for k := 0; k < l; k++ {
			rows[r][k] = int64(vI8("v"))
			rep := byte(1)
			if k == 0 {
				rep = 0
			}
			vals = append(vals, makeValueInt64(rows[r][k]).Level(int(rep), 1, 0))
		}
	}
	col := newRepeatedColumnBuffer(newInt64ColumnBuffer(Int64Type, 0, 8), 1, 1, nullsGoLast)
	if _, err := col.WriteValues(vals); err != nil {
		vAssert(false, "write")
	}
	vAssert(col.Len() == nrows, "row count")
	for i := 0; i < nrows; i++ {
		for j := 0; j < nrows; j++ {
			if i != j {
				vAssert(col.Less(i, j) == verifRefRowLess(rows[i], rows[j]), "Less is the lexicographic order over all values of the rows")
			}
		}
	}
	sort.Sort(col)
	out := verifReadAll(col.Page())
	// split the values read back into rows and compare with the sorted reference
	var got [][]int64
	for _, v := range out {
		if v.repetitionLevel == 0 {
			got = append(got, nil)
		}
		if len(got) == 0 {
			vAssert(false, "page starts at a row boundary")
			return
		}
		got[len(got)-1] = append(got[len(got)-1], v.Int64())
	}
	vAssert(len(got) == nrows, "row count after sorting")
	if len(got) != nrows {
		return
	}
	for j := 0; j+1 < nrows; j++ {
		vAssert(!verifRefRowLess(got[j+1], got[j]), "rows are in non-decreasing lexicographic order")
	}
	for i := 0; i < nrows; i++ {
		hit := []bool{}
		for j := range got {
			if len(got[j]) == len(rows[i]) {
				eq := []bool{}
				for k := range got[j] {
					eq = append(eq, got[j][k] == rows[i][k])
				}
				hit = append(hit, vAll(eq...))
			}
		}
		vAssert(vAny(hit...), "every written row is present intact after sorting")
	}
	vCover("sorted")
}

// C10.K4: Schema.Comparator orders rows by the sorting columns only, wherever
// the sorting column sits in the row: a repeated column that precedes it (and
// holds several values in a row) must not shift the comparison; ties on the
// first sorting column are broken by the second; direction and null placement
// are applied per column.
func VerifH_C10_comparatorColumns() {
	vUnwind(64)
	schema := NewSchema("s", Group{
		"a": Repeated(Leaf(Int64Type)),
		"k": Leaf(Int64Type),
		"m": Optional(Leaf(Int64Type)),
	})
	desc := vChoose("kDescending", 0, 1) == 1
	nullsFirst := vChoose("mNullsFirst", 0, 1) == 1
	var sk, sm SortingColumn = Ascending("k"), Ascending("m")
	if desc {
		sk = Descending("k")
	}
	if nullsFirst {
		sm = NullsFirst(sm)
	}
	byM := vChoose("secondSortingColumn", 0, 1) == 1
	cmp := schema.Comparator(sk)
	if byM {
		cmp = schema.Comparator(sk, sm)
	}
	type rowVals struct {
		k     int64
		mNull bool
		m     int64
	}
	mk := func(tag string) (Row, rowVals) {
		var row Row
		la := vChoose(tag+"listLen", 0, 2)
		if la == 0 {
			row = append(row, Value{}.Level(0, 0, 0))
		}
		for i := 0; i < la; i++ {
			rep := 1
			if i == 0 {
				rep = 0
			}
			row = append(row, makeValueInt64(vI64(tag+"a")).Level(rep, 1, 0))
		}
		rv := rowVals{k: int64(vI8(tag + "k"))}
		row = append(row, makeValueInt64(rv.k).Level(0, 0, 1))
		rv.mNull = vChoose(tag+"mNull", 0, 1) == 1
		if rv.mNull {
			row = append(row, Value{}.Level(0, 0, 2))
		} else {
			rv.m = int64(vI8(tag + "m"))
			row = append(row, makeValueInt64(rv.m).Level(0, 1, 2))
		}
		return row, rv
	}
	r1, v1 := mk("r1.")
	r2, v2 := mk("r2.")
	got := cmp(r1, r2)
	// reference
	ref := func() int {
		if v1.k != v2.k {
			lt := v1.k < v2.k
			if desc {
				lt = !lt
			}
			if lt {
				return -1
			}
			return 1
		}
		switch {
		case !byM:
			return 0
		case v1.mNull && v2.mNull:
			return 0
		case v1.mNull:
			if nullsFirst {
				return -1
			}
			return 1
		case v2.mNull:
			if nullsFirst {
				return 1
			}
			return -1
		case v1.m < v2.m:
			return -1
		case v1.m > v2.m:
			return 1
		}
		return 0
	}()
	sign := func(x int) int {
		switch {
		case x < 0:
			return -1
		case x > 0:
			return 1
		}
		return 0
	}
	vAssert(sign(got) == ref, "the comparator orders rows by the sorting columns, with direction and null placement")
	vCover("compared")
}

// C10.K4b: a Buffer sorted by several columns agrees with Schema.Comparator for
// the same columns: after sort.Sort every adjacent pair of rows is in
// comparator order (nulls of any depth are equal for the first key, so the
// second key must break the tie), and the rows are a permutation of the input.
func VerifH_C10_bufferMultiColumnSort() {
	vUnwind(64)
	schema := NewSchema("s", Group{
		"g": Optional(Group{"x": Optional(Leaf(Int64Type))}),
		"k": Leaf(Int64Type),
	})
	nullsFirst := vChoose("nullsFirst", 0, 1) == 1
	var sx SortingColumn = Ascending("g", "x")
	if nullsFirst {
		sx = NullsFirst(sx)
	}
	sorting := []SortingColumn{sx, Ascending("k")}
	buf := NewBuffer(schema, SortingRowGroupConfig(SortingColumns(sorting...)))
	cmp := schema.Comparator(sorting...)
	n := vChoose("rows", 2, 3)
	in := make([]Row, n)
	for i := range in {
		def := vChoose("xDef", 0, 2)
		var x Value
		if def == 2 {
			x = makeValueInt64(int64(vI8("x"))).Level(0, 2, 0)
		} else {
			x = Value{}.Level(0, def, 0)
		}
		// k = key<<4 | i makes every row distinct
		k := makeValueInt64(int64(vI8("k"))<<4 | int64(i)).Level(0, 0, 1)
		in[i] = Row{x, k}
	}
	for _, r := range in {
		if _, err := buf.WriteRows([]Row{r.Clone()}); err != nil {
			vAssert(false, "buffer accepts the rows")
			return
		}
	}
	sort.Sort(buf)
	out := make([]Row, n)
	rr := buf.Rows()
	defer rr.Close()
	got, err := rr.ReadRows(out)
	vAssert(got == n && (err == nil || err == io.EOF), "all rows are read back")
	if got != n {
		return
	}
	for i := 0; i+1 < n; i++ {
		vAssert(cmp(out[i], out[i+1]) <= 0, "sorted buffer order agrees with Schema.Comparator for the same sorting columns")
	}
	for i := range in {
		hit := []bool{}
		for j := range out {
			hit = append(hit, out[j][1].Int64() == in[i][1].Int64() && out[j][0].definitionLevel == in[i][0].definitionLevel && (in[i][0].IsNull() || out[j][0].Int64() == in[i][0].Int64()))
		}
		vAssert(vAny(hit...), "every written row is present intact after sorting")
	}
	vCover("sorted")
}

// C10.K1b: the sort interface of an optional column under arbitrary swaps (the
// standard library's pdqsort makes non-adjacent swaps from 13 rows on; here the
// swaps are chosen directly): after any sequence of Swap(i, j) the page holds
// row i's value and level at the position the swaps moved it to.
func VerifH_C10_optionalSwapsThenPage() {
	vUnwind(64)
	n := vChoose("n", 2, 4)
	nullMask := vChoose("nulls", 0, 1<<n-1)
	vals := make([]Value, n)
	for i := 0; i < n; i++ {
		if nullMask>>i&1 == 1 {
			vals[i] = Value{}.Level(0, 0, 0)
			continue
		}
		vals[i] = makeValueInt64(vI64("v")).Level(0, 1, 0)
	}
	col := newOptionalColumnBuffer(newInt64ColumnBuffer(Int64Type, 0, int32(n)), 1, nullsGoLast)
	if _, err := col.WriteValues(vals); err != nil {
		vAssert(false, "write")
		return
	}
	want := append([]Value(nil), vals...)
	for s := 0; s < 3; s++ {
		i, j := vChoose("i", 0, n-1), vChoose("j", 0, n-1)
		col.Swap(i, j)
		want[i], want[j] = want[j], want[i]
	}
	out := verifReadAll(col.Page())
	vAssert(len(out) == n, "page has every row")
	for k := 0; k < n && k < len(out); k++ {
		vAssert(out[k].IsNull() == want[k].IsNull(), "nulls end up where the swaps put them")
		if !want[k].IsNull() && !out[k].IsNull() {
			vAssert(out[k].Int64() == want[k].Int64(), "values end up where the swaps put them")
		}
	}
	vCover("swapped")
}

//go:build verif

package parquet

import (
	"bytes"
	"sort"
)

// C17.K2 on whole files: a writer that has written one file and is Reset onto a
// new output produces, for the same rows, byte for byte the file a freshly
// constructed writer produces: nothing of the first file (row groups, offsets,
// statistics, dictionaries, bloom filters, page index, key-value metadata)
// leaks into the second, whether the first file was closed, abandoned with
// rows pending, or failed on its sink. The second file's rows carry a symbolic
// byte, so the equality is over all contents.

func verifWriteAll[T any](w *GenericWriter[T], batches [][]T, flushBetween bool) bool {
	for i, b := range batches {
		if _, err := w.Write(b); err != nil {
			return false
		}
		if flushBetween && i+1 < len(batches) {
			if err := w.Flush(); err != nil {
				return false
			}
		}
	}
	return w.Close() == nil
}

func VerifH_C17_resetWholeFile() {
	vUnwind(1 << 16)
	var opts []WriterOption
	switch vChoose("config", 0, 3) {
	case 1:
		opts = append(opts, BloomFilters(SplitBlockFilter(10, "id")))
	case 2:
		opts = append(opts, DataPageVersion(1), PageBufferSize(1))
	case 3:
		opts = append(opts, KeyValueMetadata("k", "v"), MaxRowsPerRowGroup(1))
	}
	first := [][]verifRecI{{{ID: 11, Name: "first"}, {ID: 12, Name: "file"}}}
	if vChoose("firstFileGroups", 1, 2) == 2 {
		first = append(first, []verifRecI{{ID: 13, Name: "more"}})
	}
	second := [][]verifRecI{{{ID: 21, Name: vString("name", 1)}}, {{ID: 22, Name: "z"}}}
	flush := vChoose("flushBetween", 0, 1) == 1

	verifResetEquiv(first, second, opts, flush)
	vCover("reset")
}

func verifResetEquiv[T any](first, second [][]T, opts []WriterOption, flush bool) {
	bufA, bufB, bufC := new(bytes.Buffer), new(bytes.Buffer), new(bytes.Buffer)
	var w *GenericWriter[T]
	switch vChoose("firstFile", 0, 2) {
	case 0: // written and closed
		w = NewGenericWriter[T](bufA, opts...)
		if !verifWriteAll(w, first, true) {
			vAssert(false, "first file is written")
			return
		}
	case 1: // abandoned: rows written (some flushed), never closed
		w = NewGenericWriter[T](bufA, opts...)
		for i, b := range first {
			if _, err := w.Write(b); err != nil {
				vAssert(false, "first file accepts rows")
				return
			}
			if i == 0 && len(first) > 1 {
				w.Flush()
			}
		}
	case 2: // failed: the sink refuses bytes from some offset on; errors are expected
		sink := &verifSink{limit: vChoose("firstFileFaultAt", 0, 2) * 40}
		w = NewGenericWriter[T](sink, opts...)
		verifWriteAll(w, first, true)
	}
	w.Reset(bufB)
	if !verifWriteAll(w, second, flush) {
		vAssert(false, "second file is written after Reset")
		return
	}
	fresh := NewGenericWriter[T](bufC, opts...)
	if !verifWriteAll(fresh, second, flush) {
		vAssert(false, "second file is written by a fresh writer")
		return
	}
	vAssert(bufB.Len() == bufC.Len(), "reused and fresh writer produce files of the same length")
	vAssert(vBytesEq(bufB.Bytes(), bufC.Bytes()), "reused and fresh writer produce identical bytes")
}

// the same with a dictionary-encoded string column and a repeated column
func VerifH_C17_resetWholeFileDictionary() {
	vUnwind(1 << 16)
	var opts []WriterOption
	switch vChoose("config", 0, 2) {
	case 1:
		opts = append(opts, DataPageVersion(1))
	case 2:
		opts = append(opts, MaxRowsPerRowGroup(1))
	}
	first := [][]verifRecH{{{ID: 11, Name: "first", Tags: []int32{1, 2, 3}}, {ID: 12, Name: "file"}}}
	second := [][]verifRecH{{{ID: 21, Name: vString("name", 1), Tags: []int32{4}}}, {{ID: 22, Name: "first"}}}
	verifResetEquiv(first, second, opts, vChoose("flushBetween", 0, 1) == 1)
	vCover("reset")
}

// A GenericBuffer reused through Reset holds exactly the rows written after the
// Reset: the file made from it equals the file made from a fresh buffer.
func VerifH_C17_bufferResetWholeFile() {
	vUnwind(1 << 16)
	first := []verifRecH{{ID: 11, Name: "first", Tags: []int32{1, 2, 3}}, {ID: 12, Name: "file"}, {ID: 13, Name: "more", Tags: []int32{9}}}
	second := []verifRecH{{ID: 21, Name: vString("name", 1), Tags: []int32{4}}, {ID: 22, Name: "first"}}
	var bopts []RowGroupOption
	sorted := vChoose("sorted", 0, 1) == 1
	if sorted {
		bopts = append(bopts, SortingRowGroupConfig(SortingColumns(Descending("id"))))
	}
	reused := NewGenericBuffer[verifRecH](bopts...)
	if _, err := reused.Write(first); err != nil {
		vAssert(false, "buffer accepts rows")
		return
	}
	if sorted {
		sort.Sort(reused)
	}
	reused.Reset()
	fresh := NewGenericBuffer[verifRecH](bopts...)
	for _, b := range []*GenericBuffer[verifRecH]{reused, fresh} {
		if _, err := b.Write(second); err != nil {
			vAssert(false, "buffer accepts rows")
			return
		}
		if sorted {
			sort.Sort(b)
		}
	}
	out := [2]*bytes.Buffer{new(bytes.Buffer), new(bytes.Buffer)}
	for i, b := range []*GenericBuffer[verifRecH]{reused, fresh} {
		w := NewGenericWriter[verifRecH](out[i])
		if _, err := w.WriteRowGroup(b); err != nil {
			vAssert(false, "row group is written")
			return
		}
		if err := w.Close(); err != nil {
			vAssert(false, "file closes")
			return
		}
	}
	vAssert(vBytesEq(out[0].Bytes(), out[1].Bytes()), "a buffer reused through Reset produces the same file as a fresh one")
	vCover("buffer reset")
}

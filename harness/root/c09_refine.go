//go:build verif

package parquet

// C09.K6 (part): the page-granular cut lookups used to slice a lone stretch of
// a row group out of an overlapping merge. Their contract (merge_refine.go):
// every row at or after cutAbove(key) is strictly after key, every row before
// cutBelow(key) is strictly before key. Model row group: sorted pages with
// symbolic first/last values of the first sorting column.

type verifPagedCI struct {
	ColumnIndex
	earliest, latest []Value // in value order: min, max
}

func (c *verifPagedCI) NumPages() int         { return len(c.earliest) }
func (c *verifPagedCI) NullPage(int) bool     { return false }
func (c *verifPagedCI) MinValue(i int) Value  { return c.earliest[i] }
func (c *verifPagedCI) MaxValue(i int) Value  { return c.latest[i] }

type verifPagedOI struct {
	OffsetIndex
	first []int64
}

func (o *verifPagedOI) NumPages() int              { return len(o.first) }
func (o *verifPagedOI) FirstRowIndex(i int) int64  { return o.first[i] }

type verifPagedCC struct {
	ColumnChunk
	ci *verifPagedCI
	oi *verifPagedOI
}

func (c *verifPagedCC) Type() Type                          { return Int64Type }
func (c *verifPagedCC) ColumnIndex() (ColumnIndex, error)   { return c.ci, nil }
func (c *verifPagedCC) OffsetIndex() (OffsetIndex, error)   { return c.oi, nil }

type verifPagedRG struct {
	RowGroup
	rows   int64
	chunks []ColumnChunk
}

func (g *verifPagedRG) NumRows() int64              { return g.rows }
func (g *verifPagedRG) ColumnChunks() []ColumnChunk { return g.chunks }

func VerifH_C09_refineCutLookups() {
	vUnwind(64)
	P := vChoose("pages", 1, 3)
	desc := vChoose("descending", 0, 1) == 1
	lo := make([]int64, P) // first value of the page in sort order
	hi := make([]int64, P) // last value of the page in sort order
	first := make([]int64, P)
	var rows int64
	before := func(a, b int64) bool { // a sorts at or before b
		if desc {
			return a >= b
		}
		return a <= b
	}
	strictlyBefore := func(a, b int64) bool {
		if desc {
			return a > b
		}
		return a < b
	}
	ci := &verifPagedCI{}
	for p := 0; p < P; p++ {
		lo[p], hi[p] = int64(vI8("lo")), int64(vI8("hi"))
		vAssume(before(lo[p], hi[p]))
		if p > 0 {
			vAssume(before(hi[p-1], lo[p]))
		}
		first[p] = rows
		rows += int64(vChoose("pageRows", 1, 2))
		mn, mx := lo[p], hi[p]
		if desc {
			mn, mx = hi[p], lo[p]
		}
		ci.earliest = append(ci.earliest, makeValueInt64(mn))
		ci.latest = append(ci.latest, makeValueInt64(mx))
	}
	rg := &verifPagedRG{rows: rows, chunks: []ColumnChunk{&verifPagedCC{ci: ci, oi: &verifPagedOI{first: first}}}}
	cutAbove, cutBelow := newCutLookups(rg, 0, desc)
	vAssert(cutAbove != nil && cutBelow != nil, "a complete page index supports cut lookups")
	if cutAbove == nil || cutBelow == nil {
		return
	}
	key := int64(vI8("key"))
	krow := Row{makeValueInt64(key).Level(0, 0, 0)}
	a, b := cutAbove(krow), cutBelow(krow)
	vAssert(a >= 0 && a <= rows && b >= 0 && b <= rows, "cuts are row indexes of the row group")
	end := func(p int) int64 {
		if p+1 < P {
			return first[p+1]
		}
		return rows
	}
	for p := 0; p < P; p++ {
		// a page lying entirely at or after cutAbove holds only rows strictly after key
		if first[p] >= a {
			vAssert(strictlyBefore(key, lo[p]), "every row at or after cutAbove(key) sorts strictly after key")
		}
		// a page lying entirely before cutBelow holds only rows strictly before key
		if end(p) <= b {
			vAssert(strictlyBefore(hi[p], key), "every row before cutBelow(key) sorts strictly before key")
		}
		// cuts fall on page boundaries
	}
	onBoundary := func(x int64) bool {
		if x == rows {
			return true
		}
		for p := 0; p < P; p++ {
			if first[p] == x {
				return true
			}
		}
		return false
	}
	vAssert(onBoundary(a) && onBoundary(b), "cuts fall on page boundaries")
	vCover("cuts")
}

//go:build verif

package parquet

import (
	"bytes"
	"errors"
	"io"
)

// C02.K0c: compressed pages. The codec itself is a foreign loop; it is replaced
// by its contract (Decode(Encode(x)) == x, a different length: here a 2-byte
// prefix and a 1-byte suffix), and the writer's glue around it is checked by
// the specification reader: codec announced, compressed_page_size is the size
// of the stored bytes, uncompressed_page_size the size after decompression
// (levels included for v1, levels uncompressed for v2), the CRC covers the
// stored (compressed) bytes, chunk and row-group totals add up, and the decoded
// values and levels are the ones written. The library's own reader must return
// the rows as well.
//
//verif:replace (*github.com/parquet-go/parquet-go/compress/snappy.Codec).Encode => verifModelEncode
//verif:replace (*github.com/parquet-go/parquet-go/compress/snappy.Codec).Decode => verifModelDecode

func verifModelEncode(dst, src []byte) ([]byte, error) { return specCompress(dst, src), nil }

func verifModelDecode(dst, src []byte) ([]byte, error) {
	b, ok := specUncompress(src)
	if !ok {
		return dst[:0], errors.New("model codec: corrupt input")
	}
	return append(dst[:0], b...), nil
}

func verifCompressedRows() []verifRecG {
	return []verifRecG{
		{ID: 1, Opt: 0, Name: "n" + vString("name", 1), Tags: []int32{1, 2}},
		{ID: int64(vI8("id")), Opt: 5, Name: "m", Tags: nil},
	}
}

func verifWriteCompressed(rows []verifRecG, v1 bool) ([]byte, bool) {
	opts := []WriterOption{Compression(&Snappy)}
	if v1 {
		opts = append(opts, DataPageVersion(1))
	}
	buf := new(bytes.Buffer)
	w := NewGenericWriter[verifRecG](buf, opts...)
	if _, err := w.Write(rows); err != nil {
		return nil, false
	}
	if err := w.Close(); err != nil {
		return nil, false
	}
	return buf.Bytes(), true
}

func verifReadBackG(data []byte, rows []verifRecG) {
	got, err := Read[verifRecG](bytes.NewReader(data), int64(len(data)))
	vAssert((err == nil || err == io.EOF) && len(got) == len(rows), "the library reads the compressed file back")
	for i := range rows {
		if i < len(got) {
			vAssert(got[i].ID == rows[i].ID && got[i].Opt == rows[i].Opt && got[i].Name == rows[i].Name && len(got[i].Tags) == len(rows[i].Tags), "rows of a compressed file round-trip")
		}
	}
}

func VerifH_C02_specReaderCompressed() {
	vUnwind(1 << 16)
	vAbstractCRCFixedWidth() // the CRC is checked against the stored bytes as an unknown function of them
	specModelCodec = true
	rows := verifCompressedRows()
	data, ok := verifWriteCompressed(rows, vChoose("v1", 0, 1) == 1)
	if !ok {
		vAssert(false, "file is written")
		return
	}
	cols, ok := specDecodeFile(data, int64(len(rows)))
	if !ok {
		return
	}
	vAssert(len(cols) == 4, "four leaf columns")
	if len(cols) != 4 {
		return
	}
	vAssert(len(cols[0].ints) == 2 && cols[0].ints[0] == rows[0].ID && cols[0].ints[1] == rows[1].ID, "required column decodes to the written values")
	vAssert(len(cols[1].ints) == 1 && cols[1].ints[0] == 5 && specSameLevels(cols[1].def, []int32{0, 1}), "optional column decodes to the written values and null pattern")
	vAssert(len(cols[2].strs) == 2 && vBytesEq(cols[2].strs[0], []byte(rows[0].Name)) && vBytesEq(cols[2].strs[1], []byte("m")), "dictionary-encoded string column decodes to the written values")
	vAssert(len(cols[3].ints) == 2 && specSameLevels(cols[3].rep, []int32{0, 1, 0}) && specSameLevels(cols[3].def, []int32{1, 1, 0}), "repeated column decodes to the written values and levels")
	verifReadBackG(data, rows)
	vCover("compressed")
}

// native re-enactment with the real snappy codec: the specification reader
// decompresses with the real decoder, and the library's reader must return the rows
func VerifS_C02_specReaderCompressed() {
	specModelCodec = true
	specUncompressFn = func(b []byte) ([]byte, bool) {
		out, err := (&Snappy).Decode(nil, b)
		return out, err == nil
	}
	rows := []verifRecG{{ID: 1, Opt: 0, Name: "nx", Tags: []int32{1, 2}}, {ID: 7, Opt: 5, Name: "m"}}
	if c, ok := vReplayVal("name[0]", 0); ok {
		rows[0].Name = "n" + string([]byte{byte(c)})
	}
	if c, ok := vReplayVal("id", 0); ok {
		rows[1].ID = int64(int8(c))
	}
	v1, _ := vReplayVal("v1", 0)
	data, ok := verifWriteCompressed(rows, v1 == 1)
	if !ok {
		vAssert(false, "file is written")
		return
	}
	if _, ok := specDecodeFile(data, int64(len(rows))); !ok {
		vAssert(false, "the specification reader decodes the compressed file")
	}
	verifReadBackG(data, rows)
}

//go:build verif

package parquet

import "io"

// C08.K3 / C01.K6: the row reader of a row group assembles rows from per-column
// value readers (one flat column, one repeated column, real column buffers and
// pages). For every history of SeekToRow / ReadRows (any batch size, small
// value buffers) the rows returned are rows k, k+1, ... of the row group, each
// with all its values and levels.
func VerifH_C08_rowGroupRowsSeekRead() {
	vUnwind(64)
	schema := NewSchema("s", Group{"a": Leaf(Int64Type), "l": Repeated(Leaf(Int64Type))})
	R := vChoose("rows", 1, 3)
	colA := newInt64ColumnBuffer(Int64Type, 0, 4)
	colL := newRepeatedColumnBuffer(newInt64ColumnBuffer(Int64Type, 1, 8), 1, 1, nullsGoLast)
	want := make([]Row, R)
	for r := 0; r < R; r++ {
		a := makeValueInt64(vI64("a")).Level(0, 0, 0)
		want[r] = Row{a}
		colA.WriteValues([]Value{a})
		n := vChoose("listLen", 0, 2)
		var lv []Value
		if n == 0 {
			lv = []Value{Value{}.Level(0, 0, 1)}
		}
		for k := 0; k < n; k++ {
			rep := 1
			if k == 0 {
				rep = 0
			}
			lv = append(lv, makeValueInt64(vI64("l")).Level(rep, 1, 1))
		}
		colL.WriteValues(lv)
		want[r] = append(want[r], lv...)
	}
	rows := newRowGroupRows(schema, []ColumnChunk{colA, colL}, vChoose("valueBuffer", 2, 3))
	defer rows.Close()
	expect := 0
	for op := 0; op < 3; op++ {
		if vChoose("op", 0, 1) == 0 {
			k := vChoose("seek", 0, R)
			if err := rows.SeekToRow(int64(k)); err != nil {
				vAssert(false, "seek within the row group succeeds")
				return
			}
			expect = k
			continue
		}
		batch := vChoose("batch", 1, 2)
		buf := make([]Row, batch)
		n, err := rows.ReadRows(buf)
		vAssert(err == nil || err == io.EOF, "reading rows succeeds")
		if expect >= R {
			vAssert(n == 0 && err == io.EOF, "reading at the end returns EOF and no rows")
			continue
		}
		lim := R - expect
		if lim > batch {
			lim = batch
		}
		vAssert(n == lim, "a read returns the rows that remain, up to the batch size")
		for i := 0; i < n && expect+i < R; i++ {
			w := want[expect+i]
			vAssert(len(buf[i]) == len(w), "the row has all its values")
			for j := 0; j < len(w) && j < len(buf[i]); j++ {
				g := buf[i][j]
				vAssert(g.Column() == w[j].Column() && g.repetitionLevel == w[j].repetitionLevel && g.definitionLevel == w[j].definitionLevel, "values keep their column and levels")
				if !w[j].IsNull() {
					vAssert(!g.IsNull() && g.Int64() == w[j].Int64(), "values are the ones written for that row")
				}
			}
		}
		expect += n
	}
	vCover("history")
}

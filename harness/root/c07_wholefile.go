//go:build verif

package parquet

import (
	"bytes"
	"io"
)

// C07.K4 on whole files: every value written to a column with a bloom filter is
// found by the filter stored for its row group, whichever way the rows reached
// the writer: Write in one or two batches (with pages already encoded before the
// row group ends), and WriteRowGroup called while earlier rows are still
// pending, which flushes them as a row group of their own.

type verifRecI struct {
	ID   int64  `parquet:"id"`
	Name string `parquet:"name"`
}

func VerifH_C07_wholeFileBloomFilters() {
	vUnwind(1 << 16)
	opts := []WriterOption{BloomFilters(SplitBlockFilter(10, "id"), SplitBlockFilter(10, "name"))}
	if vChoose("smallPages", 0, 1) == 1 {
		opts = append(opts, PageBufferSize(1))
	}
	symID := vChoose("symbolicColumn", 0, 1) == 0
	// one symbolic row per path (every page carries a variable-length CRC of its
	// bytes, so each further symbolic page multiplies the header layouts by five)
	symRow := vChoose("symbolicRow", 0, 2)
	mk := func(i int) verifRecI {
		r := verifRecI{ID: int64(100 + i), Name: string(rune('a' + i))}
		if i != symRow {
			return r
		}
		if symID {
			r.ID = vI64("id")
		} else {
			r.Name = vString("name", vChoose("nameLen", 0, 2))
		}
		return r
	}
	buf := new(bytes.Buffer)
	w := NewGenericWriter[verifRecI](buf, opts...)
	var groups [][]verifRecI
	var pending []verifRecI
	multi := false
	batches := vChoose("batches", 1, 2)
	for b := 0; b < batches; b++ {
		r := mk(b)
		if _, err := w.Write([]verifRecI{r}); err != nil {
			vAssert(false, "rows are accepted")
			return
		}
		pending = append(pending, r)
	}
	switch vChoose("thenWriteRowGroup", 0, 2) {
	case 1:
		extra := []verifRecI{mk(2)}
		src := NewGenericBuffer[verifRecI]()
		if _, err := src.Write(extra); err != nil {
			vAssert(false, "buffer accepts the rows")
			return
		}
		if _, err := w.WriteRowGroup(src); err != nil {
			vAssert(false, "row group is accepted")
			return
		}
		groups = append(groups, pending, extra)
	case 2: // a row group made of two segments: packed column by column
		extra := []verifRecI{mk(2), {ID: 400, Name: "z"}}
		a, b := NewGenericBuffer[verifRecI](), NewGenericBuffer[verifRecI]()
		if _, err := a.Write(extra[:1]); err != nil {
			vAssert(false, "buffer accepts the rows")
			return
		}
		if _, err := b.Write(extra[1:]); err != nil {
			vAssert(false, "buffer accepts the rows")
			return
		}
		if _, err := w.WriteRowGroup(MultiRowGroup(a, b)); err != nil {
			vAssert(false, "multi row group is accepted")
			return
		}
		groups = append(groups, pending, extra)
		multi = true
	default:
		groups = append(groups, pending)
	}
	if err := w.Close(); err != nil {
		vAssert(false, "file closes")
		return
	}
	data := buf.Bytes()
	f, err := OpenFile(bytes.NewReader(data), int64(len(data)))
	if err != nil {
		vAssert(false, "written file opens")
		return
	}
	rgs := f.RowGroups()
	if multi && len(rgs) == len(groups)+1 {
		// the two segments may be written as separate row groups
		groups = [][]verifRecI{groups[0], groups[1][:1], groups[1][1:]}
	}
	vAssert(len(rgs) == len(groups), "pending rows and the row group end up in separate row groups")
	for g := 0; g < len(groups) && g < len(rgs); g++ {
		chunks := rgs[g].ColumnChunks()
		idFilter, nameFilter := chunks[0].BloomFilter(), chunks[1].BloomFilter()
		if idFilter == nil || nameFilter == nil {
			vAssert(false, "configured bloom filters are written for every row group")
			return
		}
		for _, r := range groups[g] {
			ok, err := idFilter.Check(ValueOf(r.ID))
			vAssert(err == nil && ok, "a written int64 value is found by its row group's bloom filter")
			ok, err = nameFilter.Check(ValueOf(r.Name))
			vAssert(err == nil && ok, "a written string value is found by its row group's bloom filter")
		}
	}
	vCover("bloom")
}

// C07.K6: the same after a dictionary-encoded column has outgrown
// DictionaryMaxBytes and fallen back to PLAIN in the middle of a row group: the
// values written after the fallback are not in the dictionary, and must still
// be found by the row group's filter.

type verifRecP struct {
	ID   int64  `parquet:"id"`
	Name string `parquet:"name,dict"`
}

func VerifH_C07_bloomAfterDictionaryFallback() {
	vUnwind(1 << 16)
	vAbstractCRCFixedWidth() // page checksums are not the subject
	rows := []verifRecP{{1, "aaaa"}, {2, "bbbb"}, {3, "ccc" + vString("name", 1)}, {4, "dddd"}}
	opts := []WriterOption{BloomFilters(SplitBlockFilter(10, "name")), DictionaryMaxBytes(int64(vChoose("dictionaryMaxBytes", 4, 12)))}
	if vChoose("smallPages", 0, 1) == 1 {
		opts = append(opts, PageBufferSize(1))
	}
	buf := new(bytes.Buffer)
	w := NewGenericWriter[verifRecP](buf, opts...)
	for i := range rows {
		if _, err := w.Write(rows[i : i+1]); err != nil {
			vAssert(false, "rows are accepted")
			return
		}
	}
	if err := w.Close(); err != nil {
		vAssert(false, "file closes")
		return
	}
	data := buf.Bytes()
	f, err := OpenFile(bytes.NewReader(data), int64(len(data)))
	if err != nil {
		vAssert(false, "written file opens")
		return
	}
	got, err := verifReadNames(f, len(rows))
	vAssert(err == nil && len(got) == len(rows), "rows read back")
	for i := range rows {
		if i < len(got) {
			vAssert(got[i] == rows[i].Name, "values survive the dictionary fallback")
		}
	}
	filter := f.RowGroups()[0].ColumnChunks()[1].BloomFilter()
	if filter == nil {
		vAssert(false, "configured bloom filter is written")
		return
	}
	for _, r := range rows {
		ok, err := filter.Check(ValueOf(r.Name))
		vAssert(err == nil && ok, "a value written after the dictionary fallback is found by the bloom filter")
	}
	vCover("fallback bloom")
}

func verifReadNames(f *File, n int) ([]string, error) {
	r := NewGenericReader[verifRecP](f)
	defer r.Close()
	out := make([]verifRecP, n+1)
	k, err := r.Read(out)
	if err != nil && err != io.EOF {
		return nil, err
	}
	names := make([]string, k)
	for i := range names {
		names[i] = out[i].Name
	}
	return names, nil
}

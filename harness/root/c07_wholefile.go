//go:build verif

package parquet

import "bytes"

// C07.K4 on whole files: every value written to a column with a bloom filter is
// found by the filter stored for its row group, whichever way the rows reached
// the writer: Write in one or two batches (with pages already encoded before the
// row group ends), and WriteRowGroup called while earlier rows are still
// pending, which flushes them as a row group of their own.

type verifRecI struct {
	ID   int64  `parquet:"id"`
	Name string `parquet:"name"`
}

func VerifH_C07_wholeFileBloomFilters() {
	vUnwind(1 << 16)
	opts := []WriterOption{BloomFilters(SplitBlockFilter(10, "id"), SplitBlockFilter(10, "name"))}
	if vChoose("smallPages", 0, 1) == 1 {
		opts = append(opts, PageBufferSize(1))
	}
	symID := vChoose("symbolicColumn", 0, 1) == 0
	// one symbolic row per path (every page carries a variable-length CRC of its
	// bytes, so each further symbolic page multiplies the header layouts by five)
	symRow := vChoose("symbolicRow", 0, 2)
	mk := func(i int) verifRecI {
		r := verifRecI{ID: int64(100 + i), Name: string(rune('a' + i))}
		if i != symRow {
			return r
		}
		if symID {
			r.ID = vI64("id")
		} else {
			r.Name = vString("name", vChoose("nameLen", 0, 2))
		}
		return r
	}
	buf := new(bytes.Buffer)
	w := NewGenericWriter[verifRecI](buf, opts...)
	var groups [][]verifRecI
	var pending []verifRecI
	batches := vChoose("batches", 1, 2)
	for b := 0; b < batches; b++ {
		r := mk(b)
		if _, err := w.Write([]verifRecI{r}); err != nil {
			vAssert(false, "rows are accepted")
			return
		}
		pending = append(pending, r)
	}
	if vChoose("thenWriteRowGroup", 0, 1) == 1 {
		extra := []verifRecI{mk(2)}
		src := NewGenericBuffer[verifRecI]()
		if _, err := src.Write(extra); err != nil {
			vAssert(false, "buffer accepts the rows")
			return
		}
		if _, err := w.WriteRowGroup(src); err != nil {
			vAssert(false, "row group is accepted")
			return
		}
		groups = append(groups, pending, extra)
	} else {
		groups = append(groups, pending)
	}
	if err := w.Close(); err != nil {
		vAssert(false, "file closes")
		return
	}
	data := buf.Bytes()
	f, err := OpenFile(bytes.NewReader(data), int64(len(data)))
	if err != nil {
		vAssert(false, "written file opens")
		return
	}
	rgs := f.RowGroups()
	vAssert(len(rgs) == len(groups), "pending rows and the row group end up in separate row groups")
	for g := 0; g < len(groups) && g < len(rgs); g++ {
		chunks := rgs[g].ColumnChunks()
		idFilter, nameFilter := chunks[0].BloomFilter(), chunks[1].BloomFilter()
		if idFilter == nil || nameFilter == nil {
			vAssert(false, "configured bloom filters are written for every row group")
			return
		}
		for _, r := range groups[g] {
			ok, err := idFilter.Check(ValueOf(r.ID))
			vAssert(err == nil && ok, "a written int64 value is found by its row group's bloom filter")
			ok, err = nameFilter.Check(ValueOf(r.Name))
			vAssert(err == nil && ok, "a written string value is found by its row group's bloom filter")
		}
	}
	vCover("bloom")
}

//go:build verif

package parquet

import "encoding/binary"

// C01.K8: the FIXED_LEN_BYTE_ARRAY(16) dictionary cuts one insert call into
// chunks of 512 values; a value first seen in the second chunk must be stored
// under the index that is handed back for it. One 16-byte value with a symbolic last byte (and a symbolic family bit) sits
// just before, at, or after the chunk boundary among concrete distinct values
// (and one concrete repeat per chunk); every handed-back index must name a
// dictionary entry equal to the value inserted at that position, and equal
// values must share an index. Both entry points: Insert (Value path) and
// insert (typed sparse-array path).
//
// Environment stub: the probing table's random seed (crypto/rand at package
// initialisation) is a fixed constant here; other seeds are outside the claim.
//
//verif:replace github.com/parquet-go/parquet-go/hashprobe.randSeed => verifFixedSeed

func verifFixedSeed() uintptr { return 0x9E3779B97F4A7C15 }

func verifBE128Chunks(p int, sym []byte, typed bool) {
	const n = 516
	typ := FixedLenByteArrayType(16)
	dict := typ.NewDictionary(0, 0, typ.NewValues(nil, nil))
	vals := make([]Value, n)
	raw := make([][16]byte, n)
	for i := range raw {
		k := uint32(i) + 1
		if i == 200 || i == 515 {
			k = 8 // repeats of raw[7], one per chunk
		}
		binary.BigEndian.PutUint32(raw[i][12:], k)
		raw[i][0] = 0xA5
		if i == p {
			copy(raw[i][:], sym)
		}
		vals[i] = makeValueBytes(FixedLenByteArray, raw[i][:])
	}
	indexes := make([]int32, n)
	if typed {
		dict.(*be128Dictionary).insert(indexes, makeArrayFromSlice(raw))
	} else {
		dict.Insert(indexes, vals)
	}
	vAssert(dict.Len() <= n-2 && dict.Len() >= n-3, "dictionary holds every distinct value once")
	vAssert(int(indexes[p]) < dict.Len(), "index of the symbolic value in range")
	for _, i := range []int{0, 7, 200, 509, 510, 511, 512, 513, 514, 515} {
		idx := indexes[i]
		if idx < 0 || int(idx) >= dict.Len() {
			vAssert(false, "index in range")
			continue
		}
		got := dict.Index(idx).ByteArray()
		vAssert(len(got) == 16 && vBytesEq(got, raw[i][:]), "index names the inserted value")
	}
	vAssert(indexes[200] == indexes[7] && indexes[515] == indexes[7], "equal values share an index")
}

func VerifH_C01_be128DictionaryChunks() {
	vUnwind(4096)
	// quick: the symbolic value just after the chunk boundary (positions 512,
	// 513), typed path and Value path; thorough: positions 510..514.
	lo, hi := 2, 3
	if vTier() > 0 {
		lo, hi = 0, 4
	}
	p := 510 + vChoose("pos", lo, hi)
	sym := make([]byte, 16)
	sym[0] = 0xA5
	sym[1] = byte(vChoose("w", 0, 1)) // 0: same family as the concrete values (may collide with raw[v-1]); otherwise always new
	sym[15] = vU8("v")
	if vTier() == 0 {
		vAssume(sym[15] < 32)
	}
	verifBE128Chunks(p, sym, vChoose("typed", 0, 1) == 1)
	vCover("be128 chunks")
}

// Native scenario: the same insert against the real table (real random seed).
func VerifS_C01_be128DictionaryChunks() {
	pos, _ := vReplayVal("pos", 0)
	typed, _ := vReplayVal("typed", 0)
	sym := make([]byte, 16)
	sym[0] = 0xA5
	if c, ok := vReplayVal("v", 0); ok {
		sym[15] = byte(c)
	}
	if c, ok := vReplayVal("w", 0); ok {
		sym[1] = byte(c)
	}
	verifBE128Chunks(510+int(pos), sym, typed == 1)
}

//go:build verif

package parquet

import (
	"bytes"
	"io"
)

// C14.K1 on the whole writer: a real GenericWriter (pages, dictionary, page
// index, footer, bufio flush - every write site) writes a small file into a
// sink that refuses bytes from a chosen offset on, by error or by a short
// write. For every offset before the end of the file some Write/Flush/Close
// returns a non-nil error and none panics; with the fault beyond the end the
// file is complete and Close returns nil.

type verifRecH struct {
	ID   int64   `parquet:"id"`
	Name string  `parquet:"name,dict"`
	Tags []int32 `parquet:"tags"`
}

func verifRowsH(sym bool) []verifRecH {
	rows := []verifRecH{{ID: 1, Name: "a", Tags: []int32{1, 2}}, {ID: 2, Name: "bc"}}
	if sym {
		// one symbolic byte: enough to make the file contents a solver matter
		// while the CRC-32 of the page stays cheap to reason about
		rows[0].Name = vString("name", 1)
	}
	return rows
}

func verifWriteH(sink io.Writer, rows []verifRecH, opts []WriterOption, flushMid bool) (firstErr error) {
	w := NewGenericWriter[verifRecH](sink, opts...)
	note := func(err error) {
		if err != nil && firstErr == nil {
			firstErr = err
		}
	}
	_, err := w.Write(rows[:1])
	note(err)
	if flushMid {
		note(w.Flush())
	}
	_, err = w.Write(rows[1:])
	note(err)
	note(w.Close())
	return firstErr
}

func verifOptsH(bufferless, v1 bool) []WriterOption {
	var opts []WriterOption
	if bufferless {
		opts = append(opts, WriteBufferSize(0))
	}
	if v1 {
		opts = append(opts, DataPageVersion(1))
	}
	return opts
}

func VerifH_C14_wholeWriterSinkFaults() {
	vUnwind(1 << 16)
	bufferless := vChoose("writeBufferOff", 0, 1) == 1
	flushMid := vTier() > 0 && vChoose("flushBetween", 0, 1) == 1
	// symbolic row values were tried at tier 1: every page header then has five
	// possible lengths and each fault class costs seconds of CRC reasoning
	// (25 minutes in total) without reaching any code the concrete rows do not
	const symbolic = false
	opts := verifOptsH(bufferless, false)
	rows := verifRowsH(symbolic)
	// reference run: how long is the complete file
	ref := new(bytes.Buffer)
	if err := verifWriteH(ref, rows, opts, flushMid); err != nil {
		vAssert(false, "reference run succeeds")
		return
	}
	total := ref.Len()
	// The fault offset is a case split, one path per offset. (A symbolic offset
	// was tried: the short count flows into the writer's offset tracking and from
	// there into every variable-length footer field, which forks more than the
	// case split does.) With symbolic row values the split is over boundary
	// classes only, since every page header then has five possible lengths.
	limit := 0
	if symbolic {
		classes := []int{0, 1, 4, total / 2, total - 9, total - 8, total - 4, total - 1, total}
		limit = classes[vChoose("faultClass", 0, len(classes)-1)]
	} else {
		limit = vChoose("faultAt", 0, total)
	}
	sink := &verifSink{limit: limit, shortOnly: vChoose("shortWrite", 0, 1) == 1}
	err := verifWriteH(sink, rows, opts, flushMid)
	if sink.limit < total {
		vAssert(sink.refused, "the sink was asked for the refused byte")
		vAssert(err != nil, "a refused byte surfaces as an error from Write, Flush or Close")
	} else {
		vAssert(err == nil && sink.accepted == total, "no fault: Close returns nil and every byte was accepted")
	}
	vCover("fault")
}

// A sink that fails once and then works again (a transient error, or one short
// write) must be noticed as well, unless the writer delivers the refused bytes
// after all: a nil error means the sink holds the complete file.
// Without the bufio layer nothing remembers the error, so every write site has
// to report it itself. Configurations: two batches; one Write that crosses a
// one-row row-group limit (the writer flushes row groups inside Write); bloom
// filters deferred into a buffer pool (copied to the sink when the file closes).
func VerifH_C14_transientSinkFaults() {
	vUnwind(1 << 16)
	rows := verifRowsH(false)
	opts := []WriterOption{WriteBufferSize(0)}
	config := vChoose("config", 0, 2)
	switch config {
	case 1:
		opts = append(opts, MaxRowsPerRowGroup(1))
	case 2:
		opts = append(opts, BloomFilters(SplitBlockFilter(10, "name")), DeferBloomFiltersWithBuffers(NewBufferPool()))
	}
	write := func(sink io.Writer) (firstErr error) {
		w := NewGenericWriter[verifRecH](sink, opts...)
		note := func(err error) {
			if err != nil && firstErr == nil {
				firstErr = err
			}
		}
		if config == 1 {
			_, err := w.Write(rows) // crosses the row-group limit inside one call
			note(err)
		} else {
			_, err := w.Write(rows[:1])
			note(err)
			_, err = w.Write(rows[1:])
			note(err)
		}
		note(w.Close())
		return firstErr
	}
	ref := new(bytes.Buffer)
	if err := write(ref); err != nil {
		vAssert(false, "reference run succeeds")
		return
	}
	total := ref.Len()
	sink := &verifSink{limit: vChoose("faultAt", 0, total-1), shortOnly: vChoose("shortWrite", 0, 1) == 1, transient: true, record: true}
	err := write(sink)
	vAssert(sink.refused, "the sink was asked for the refused byte")
	// a writer may offer the refused bytes again (io.WriterTo loops do); what counts
	// is that a nil error means the sink holds the complete file
	vAssert(err != nil || bytes.Equal(sink.data, ref.Bytes()), "no error from Write and Close means the sink holds every byte of the complete file")
	vCover("transient fault")
}

// C14.K2 on whole files: every strict prefix of a valid file is rejected by
// OpenFile or by the first read that needs the missing bytes, and a failing or
// short ReadAt surfaces as an error instead of missing or altered rows.

type verifFaultyReaderAt struct {
	data    []byte
	calls   int
	failAt  int // index of the ReadAt call that fails (-1: none)
	short   bool
	tripped bool
}

func (r *verifFaultyReaderAt) ReadAt(p []byte, off int64) (int, error) {
	call := r.calls
	r.calls++
	if off < 0 || off > int64(len(r.data)) {
		return 0, io.EOF
	}
	n := copy(p, r.data[off:])
	if call == r.failAt {
		r.tripped = true
		if r.short && n > 0 {
			// half of the bytes, and the error io.ReaderAt requires with a short count
			return n / 2, errVerifSink
		}
		return 0, errVerifSink
	}
	if n < len(p) {
		return n, io.EOF
	}
	return n, nil
}

func verifReadAllH(f *File, n int) (rows []verifRecH, err error) {
	r := NewGenericReader[verifRecH](f)
	defer r.Close()
	out := make([]verifRecH, n+1)
	k, err := r.Read(out)
	if err == io.EOF {
		err = nil
	}
	return out[:k], err
}

func verifSameH(a, b []verifRecH) bool {
	if len(a) != len(b) {
		return false
	}
	ok := true
	for i := range a {
		ok = vAll(ok, a[i].ID == b[i].ID, a[i].Name == b[i].Name, len(a[i].Tags) == len(b[i].Tags))
		for j := range a[i].Tags {
			if j < len(b[i].Tags) {
				ok = vAll(ok, a[i].Tags[j] == b[i].Tags[j])
			}
		}
	}
	return ok
}

func VerifH_C14_truncatedFileRejected() {
	vUnwind(1 << 16)
	rows := verifRowsH(vTier() > 0)
	ref := new(bytes.Buffer)
	if err := verifWriteH(ref, rows, verifOptsH(false, vChoose("v1", 0, 1) == 1), false); err != nil {
		vAssert(false, "reference run succeeds")
		return
	}
	data := ref.Bytes()
	cut := vChoose("cut", 0, len(data)-1)
	prefix := data[:cut]
	f, err := OpenFile(bytes.NewReader(prefix), int64(len(prefix)))
	if err != nil {
		vCover("rejected at open")
		return
	}
	got, err := verifReadAllH(f, len(rows))
	vAssert(err != nil, "a strict prefix that opens fails on the first read that needs the missing bytes")
	_ = got
	vCover("rejected at read")
}

func VerifH_C14_readAtFaultsSurface() {
	vUnwind(1 << 16)
	rows := verifRowsH(true)
	ref := new(bytes.Buffer)
	if err := verifWriteH(ref, rows, nil, false); err != nil {
		vAssert(false, "reference run succeeds")
		return
	}
	data := ref.Bytes()
	// how many ReadAt calls does a clean open+read make
	clean := &verifFaultyReaderAt{data: data, failAt: -1}
	f, err := OpenFile(clean, int64(len(data)))
	if err != nil {
		vAssert(false, "clean open succeeds")
		return
	}
	got, err := verifReadAllH(f, len(rows))
	vAssert(err == nil && verifSameH(got, rows), "clean read returns the rows")
	calls := clean.calls
	src := &verifFaultyReaderAt{data: data, failAt: vChoose("failAt", 0, calls-1), short: vChoose("short", 0, 1) == 1}
	f, err = OpenFile(src, int64(len(data)))
	if err != nil {
		vAssert(src.tripped, "open only fails because of the injected fault")
		vCover("fault at open")
		return
	}
	got, err = verifReadAllH(f, len(rows))
	if src.tripped {
		vAssert(err != nil || verifSameH(got, rows), "a failed ReadAt surfaces as an error, never as missing or altered rows")
	} else {
		vAssert(err == nil && verifSameH(got, rows), "no fault reached: rows are intact")
	}
	vCover("fault at read")
}

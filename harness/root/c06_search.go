//go:build verif

package parquet

import "bytes"

// C06: Search over an index produced by the real column indexer from symbolic
// page statistics (null pages contribute zero Values, as recordPageStats does).

func verifC06Pages() int {
	if vTier() > 0 {
		return 5
	}
	return 4
}

func VerifH_C06_searchInt32() {
	vUnwind(16)
	P := vChoose("pages", 1, verifC06Pages())
	nullMask := vChoose("nullmask", 0, 1<<P-1)
	ix := newInt32ColumnIndexer()
	mins := make([]int32, P)
	maxs := make([]int32, P)
	for i := 0; i < P; i++ {
		if nullMask>>i&1 == 1 {
			ix.IndexPage(3, 3, Value{}, Value{})
			continue
		}
		mins[i], maxs[i] = vI32("min"), vI32("max")
		vAssume(mins[i] <= maxs[i])
		ix.IndexPage(3, 1, makeValueInt32(mins[i]), makeValueInt32(maxs[i]))
	}
	fci := ix.ColumnIndex()
	ci := NewColumnIndex(Int32, &fci)
	v := vI32("probe")
	hidden := vChoose("hidden", -1, P-1)
	if hidden >= 0 {
		vAssume(nullMask>>hidden&1 == 0)
		vAssume(vAll(mins[hidden] <= v, v <= maxs[hidden]))
	}
	r := Search(ci, makeValueInt32(v), Int32Type)
	vAssert(vAll(r >= 0, r <= P), "result in range")
	if hidden >= 0 {
		vAssert(r <= hidden, "search result is not past a page that contains the value")
	}
	if r < P {
		vAssert(nullMask>>r&1 == 0, "returned page is not a null page")
		vAssert(vAll(mins[r] <= v, v <= maxs[r]), "returned page bounds contain the value")
	} else {
		for i := 0; i < P; i++ {
			if nullMask>>i&1 == 0 {
				vAssert(!vAll(mins[i] <= v, v <= maxs[i]), "NumPages only when no page can contain the value")
			}
		}
	}
	vCover("searched")
}

func VerifH_C06_searchByteArray() {
	vUnwind(16)
	P := vChoose("pages", 1, verifC06Pages()-2)
	nullMask := vChoose("nullmask", 0, 1<<P-1)
	limit := vChoose("limit", 0, 1) // 0 = no truncation, 1 = truncate bounds to 1 byte
	ix := newByteArrayColumnIndexer(limit)
	mins := make([][]byte, P)
	maxs := make([][]byte, P)
	for i := 0; i < P; i++ {
		if nullMask>>i&1 == 1 {
			ix.IndexPage(3, 3, Value{}, Value{})
			continue
		}
		mins[i], maxs[i] = vBytes("min", 2), vBytes("max", 2)
		vAssume(bytes.Compare(mins[i], maxs[i]) <= 0)
		ix.IndexPage(3, 1, makeValueBytes(ByteArray, mins[i]), makeValueBytes(ByteArray, maxs[i]))
	}
	fci := ix.ColumnIndex()
	ci := NewColumnIndex(ByteArray, &fci)
	v := vBytes("probe", 2)
	hidden := vChoose("hidden", -1, P-1)
	if hidden >= 0 {
		vAssume(nullMask>>hidden&1 == 0)
		vAssume(vAll(bytes.Compare(mins[hidden], v) <= 0, bytes.Compare(v, maxs[hidden]) <= 0))
	}
	r := Search(ci, makeValueBytes(ByteArray, v), ByteArrayType)
	vAssert(vAll(r >= 0, r <= P), "result in range")
	if hidden >= 0 {
		vAssert(r <= hidden, "search result is not past a page that contains the value")
	}
	if r < P {
		vAssert(nullMask>>r&1 == 0, "returned page is not a null page")
		// the index bounds (possibly truncated) of the returned page contain the value
		imin, imax := ci.MinValue(r), ci.MaxValue(r)
		vAssert(vAll(bytes.Compare(imin.byteArray(), v) <= 0, bytes.Compare(v, imax.byteArray()) <= 0), "returned page index bounds contain the value")
	} else {
		for i := 0; i < P; i++ {
			if nullMask>>i&1 == 0 {
				vAssert(!vAll(bytes.Compare(mins[i], v) <= 0, bytes.Compare(v, maxs[i]) <= 0), "NumPages only when no page can contain the value")
			}
		}
	}
	vCover("searched")
}

//go:build verif

package parquet

// C16.K3: re-assembly into a destination the caller reuses (the batch slice of
// GenericReader.Read) never writes into memory that an earlier re-assembly
// handed out: lists, byte slices, strings and pointer targets kept from the
// first row still hold the first row's values after the second row has been
// re-assembled into the same struct.

type verifRecD struct {
	ID     int64    `parquet:"id"`
	Scores []int32  `parquet:"scores"`
	Names  []string `parquet:"names"`
	Blob   []byte   `parquet:"blob"`
	Ptr    *int32   `parquet:"ptr,optional"`
}

func verifSymD(tag string) verifRecD {
	var v verifRecD
	v.ID = vI64(tag + ".id")
	for i, n := 0, vChoose(tag+".scores", 0, 2); i < n; i++ {
		v.Scores = append(v.Scores, vI32(tag+".score"))
	}
	for i, n := 0, vChoose(tag+".names", 0, 1); i < n; i++ {
		v.Names = append(v.Names, vString(tag+".name", 2))
	}
	v.Blob = vBytes(tag+".blob", vChoose(tag+".blobLen", 0, 2))
	if vChoose(tag+".ptr", 0, 1) == 1 {
		x := vI32(tag + ".ptrval")
		v.Ptr = &x
	}
	return v
}

func VerifH_C16_reconstructIntoReusedDestination() {
	vUnwind(256)
	a, b := verifSymD("a"), verifSymD("b")
	schema := SchemaOf(a)
	rowA := schema.Deconstruct(nil, &a)
	rowB := schema.Deconstruct(nil, &b)

	var dst verifRecD
	if err := schema.Reconstruct(&dst, rowA); err != nil {
		vAssert(false, "first row re-assembles")
		return
	}
	kept := dst // the caller's shallow copy: append(all, batch[:n]...)
	if err := schema.Reconstruct(&dst, rowB); err != nil {
		vAssert(false, "second row re-assembles")
		return
	}
	vAssert(kept.ID == a.ID && len(kept.Scores) == len(a.Scores) && len(kept.Names) == len(a.Names) && len(kept.Blob) == len(a.Blob), "kept row keeps its shape")
	for i := range a.Scores {
		if i < len(kept.Scores) {
			vAssert(kept.Scores[i] == a.Scores[i], "list elements handed out earlier are not overwritten")
		}
	}
	for i := range a.Names {
		if i < len(kept.Names) {
			vAssert(kept.Names[i] == a.Names[i], "strings handed out earlier are not overwritten")
		}
	}
	vAssert(vBytesEq(kept.Blob, a.Blob), "byte slices handed out earlier are not overwritten")
	vAssert((kept.Ptr == nil) == (a.Ptr == nil), "pointer handed out earlier keeps its nil-ness")
	if kept.Ptr != nil && a.Ptr != nil {
		vAssert(*kept.Ptr == *a.Ptr, "pointer targets handed out earlier are not overwritten")
	}
	// and the second row is what was asked for
	vAssert(dst.ID == b.ID && len(dst.Scores) == len(b.Scores) && vBytesEq(dst.Blob, b.Blob), "second row re-assembles to its own values")
	for i := range b.Scores {
		if i < len(dst.Scores) {
			vAssert(dst.Scores[i] == b.Scores[i], "second row's list elements")
		}
	}
	// the shredded rows the caller passed in were not modified
	vAssert(!vOverlap(kept.Blob, dst.Blob), "the two rows do not share byte storage")
	vCover("reused")
}

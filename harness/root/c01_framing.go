//go:build verif

package parquet

import "github.com/parquet-go/parquet-go/format"

// C01.K2: framing of a data page body. The writer stores repetition levels,
// definition levels and values in one body (v1: each level section prefixed by
// its 4-byte length; v2: sections back to back with their lengths in the
// header); the reader's level decoders split it again. For every level vector
// and value bytes in the bound the three sections come back unchanged.
func VerifH_C01_pageBodyFraming() {
	vUnwind(64)
	maxRep := byte(vChoose("maxRepetitionLevel", 0, 2))
	maxDef := byte(vChoose("maxDefinitionLevel", 0, 3))
	k := vChoose("numValues", 1, 4+vTier())
	var rep, def []byte
	if maxRep > 0 {
		rep = vBytes("rep", k)
		for i := range rep {
			vAssume(rep[i] <= maxRep)
		}
	}
	if maxDef > 0 {
		def = vBytes("def", k)
		for i := range def {
			vAssume(def[i] <= maxDef)
		}
	}
	values := vBytes("values", vChoose("valueBytes", 0, 4))
	wb := newWriterBuffers()
	wb.repetitions, wb.definitions = vBytes("dirtyRep", 2)[:0], vBytes("dirtyDef", 1)[:0]
	var err error
	if maxRep > 0 {
		wb.repetitions, err = encodeLevels(wb.repetitions, rep, maxRep)
		vAssert(err == nil, "repetition levels encode")
	}
	if maxDef > 0 {
		wb.definitions, err = encodeLevels(wb.definitions, def, maxDef)
		vAssert(err == nil, "definition levels encode")
	}
	wb.page = append(vBytes("dirtyPage", 1)[:0], values...)
	v2 := vChoose("dataPageV2", 0, 1) == 1
	var body []byte
	repLen, defLen := int64(len(wb.repetitions)), int64(len(wb.definitions))
	if v2 {
		body = append(append(append([]byte(nil), wb.repetitions...), wb.definitions...), wb.page...)
	} else {
		wb.prependLevelsToDataPageV1(maxRep, maxDef)
		body = wb.page
		vAssert(len(wb.repetitions) == 0 && len(wb.definitions) == 0, "v1: level buffers were moved into the page body")
	}
	data := body
	if maxRep > 0 {
		enc := lookupLevelEncoding(format.RLE, maxRep)
		var lv *buffer[byte]
		if v2 {
			lv, data, err = decodeLevelsV2(enc, k, data, repLen)
		} else {
			lv, data, err = decodeLevelsV1(enc, k, data)
		}
		vAssert(err == nil && lv != nil, "repetition levels decode")
		if lv != nil {
			vAssert(vBytesEq(lv.data.Slice(), rep), "repetition levels are the ones written")
		}
	}
	if maxDef > 0 {
		enc := lookupLevelEncoding(format.RLE, maxDef)
		var lv *buffer[byte]
		if v2 {
			lv, data, err = decodeLevelsV2(enc, k, data, defLen)
		} else {
			lv, data, err = decodeLevelsV1(enc, k, data)
		}
		vAssert(err == nil && lv != nil, "definition levels decode")
		if lv != nil {
			vAssert(vBytesEq(lv.data.Slice(), def), "definition levels are the ones written")
			nulls := 0
			want := []bool{}
			_ = want
			for i := range def {
				_ = i
			}
			_ = nulls
			vAssert(countLevelsNotEqual(lv.data.Slice(), maxDef) == countLevelsNotEqual(def, maxDef), "null count derived from the levels")
		}
	}
	vAssert(vBytesEq(data, values), "the value bytes follow the level sections unchanged")
	vCover("framed")
}

//go:build verif

package parquet

import "reflect"

// C03.K4: every integer kind selected by nullIndexFuncOf: a row is non-null
// exactly when its value is non-zero (values whose low byte is zero included).
func VerifH_C03_nullScanIntKinds() {
	vUnwind(200)
	n := vChoose("n", 1, 3)
	nz := make([]bool, n)
	var runs []verifRun
	switch vChoose("kind", 0, 7) {
	case 0:
		v := make([]int8, n)
		for i := range v {
			v[i] = vI8("v")
			nz[i] = v[i] != 0
		}
		rows := makeArrayFromSlice(v)
		runs = verifScanOptional(reflect.TypeOf(int8(0)), rows, uintptr(rows.Index(0)), 1)
	case 1:
		v := make([]int16, n)
		for i := range v {
			v[i] = vI16("v")
			nz[i] = v[i] != 0
		}
		rows := makeArrayFromSlice(v)
		runs = verifScanOptional(reflect.TypeOf(int16(0)), rows, uintptr(rows.Index(0)), 2)
	case 2:
		v := make([]uint16, n)
		for i := range v {
			v[i] = vU16("v")
			nz[i] = v[i] != 0
		}
		rows := makeArrayFromSlice(v)
		runs = verifScanOptional(reflect.TypeOf(uint16(0)), rows, uintptr(rows.Index(0)), 2)
	case 3:
		v := make([]uint32, n)
		for i := range v {
			v[i] = vU32("v")
			nz[i] = v[i] != 0
		}
		rows := makeArrayFromSlice(v)
		runs = verifScanOptional(reflect.TypeOf(uint32(0)), rows, uintptr(rows.Index(0)), 4)
	case 4:
		v := make([]int64, n)
		for i := range v {
			v[i] = vI64("v")
			nz[i] = v[i] != 0
		}
		rows := makeArrayFromSlice(v)
		runs = verifScanOptional(reflect.TypeOf(int64(0)), rows, uintptr(rows.Index(0)), 8)
	case 5:
		v := make([]uint64, n)
		for i := range v {
			v[i] = vU64("v")
			nz[i] = v[i] != 0
		}
		rows := makeArrayFromSlice(v)
		runs = verifScanOptional(reflect.TypeOf(uint64(0)), rows, uintptr(rows.Index(0)), 8)
	case 6:
		v := make([]int, n)
		for i := range v {
			v[i] = vInt("v")
			nz[i] = v[i] != 0
		}
		rows := makeArrayFromSlice(v)
		runs = verifScanOptional(reflect.TypeOf(int(0)), rows, uintptr(rows.Index(0)), 8)
	case 7:
		v := make([]float32, n)
		for i := range v {
			v[i] = vF32("v")
			nz[i] = v[i] != 0
		}
		rows := makeArrayFromSlice(v)
		runs = verifScanOptional(reflect.TypeOf(float32(0)), rows, uintptr(rows.Index(0)), 4)
	}
	verifCheckRuns(runs, n, nz)
	vCover("scanned")
}

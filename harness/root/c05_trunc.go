//go:build verif

package parquet

import "bytes"

// C05.K4: a truncated column-index bound still bounds the value.
func VerifH_C05_truncMax() {
	n := vChoose("len", 1, 4)
	lim := vChoose("limit", 1, 3)
	v := vBytes("v", n)
	orig := bytes.Clone(v)
	got := truncateLargeMaxByteArrayValue(v, lim)
	vAssert(bytes.Compare(got, orig) >= 0, "truncated max is an upper bound")
	mn := truncateLargeMinByteArrayValue(bytes.Clone(orig), lim)
	vAssert(bytes.Compare(mn, orig) <= 0, "truncated min is a lower bound")
	vCover("reached")
}

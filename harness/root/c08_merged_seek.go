//go:build verif

package parquet

import "io"

// C08.K5: SeekToRow on the rows of a merged row group, then reads of any batch
// size, return the rows from the target on (forward seeks only; backward seeks
// are rejected with an error).

type verifCountingReader struct {
	n      int // total rows; row i has value i in column 0
	pos    int
	calls  int
	budget int
}

func (r *verifCountingReader) ReadRows(dst []Row) (int, error) {
	r.calls++
	if r.calls > r.budget {
		vAssert(false, "reads terminate: the source is called a bounded number of times")
		panic("verif: read budget exceeded")
	}
	k := 0
	for k < len(dst) && r.pos < r.n {
		dst[k] = append(dst[k][:0], makeValueInt64(int64(r.pos)))
		r.pos++
		k++
	}
	if r.pos >= r.n {
		return k, io.EOF
	}
	return k, nil
}

func VerifH_C08_mergedRowsSeek() {
	vUnwind(32)
	total := vChoose("rows", 1, 6)
	src := &verifCountingReader{n: total, budget: 40}
	rows := &mergedRowGroupRows{merge: src}
	batch := vChoose("batch", 1, 4)
	buf := make([]Row, batch)
	expect := 0 // index of the next row a read must return
	pos := 0    // rows the reader has consumed from the merge so far
	ops := 2 + vTier()
	for op := 0; op < ops; op++ {
		if vChoose("op", 0, 1) == 0 {
			target := vChoose("target", 0, total)
			err := rows.SeekToRow(int64(target))
			// the merge can only move forward from what it has already consumed
			if target >= pos {
				vAssert(err == nil, "forward seek succeeds")
				if err == nil {
					expect = target
				}
			} else {
				vAssert(err != nil, "backward seek is rejected")
			}
			continue
		}
		n, err := rows.ReadRows(buf)
		vAssert(n >= 0 && n <= batch, "row count within the buffer")
		for i := 0; i < n && i < batch; i++ {
			vAssert(len(buf[i]) == 1 && buf[i][0].int64() == int64(expect+i), "rows returned are the rows from the seek target on")
		}
		expect += n
		pos = expect
		if err == io.EOF {
			vAssert(expect >= total, "EOF only after the last row")
			break
		}
		vAssert(err == nil, "read succeeds")
	}
	vCover("history")
}

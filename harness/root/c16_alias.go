//go:build verif

package parquet

import "github.com/parquet-go/parquet-go/encoding"

// C16.K2: reference counting of pooled page buffers: for every history of
// Retain / Release / Slice / release-of-slice on a buffered page the buffers go
// back to the pool exactly when the last holder releases, never earlier, never
// twice (the pool panics on a double put or a non-zero count).
func VerifH_C16_refcountProtocol() {
	vUnwind(64)
	values := buffers.get(4)
	levels := buffers.get(2)
	copy(values.data.Slice(), []byte{1, 2, 3, 4})
	base := newInt32Page(Int32Type, 0, 1, encoding.Int32ValuesFromBytes(values.data.Slice()))
	page := newBufferedPage(base, nil, values, levels, nil)
	// the creator drops its own references: the page now owns the buffers
	values.unref()
	levels.unref()
	holders := 1 // references held on page (or its slices)
	var slices []*bufferedPage
	steps := 3 + vTier()
	for s := 0; s < steps && holders > 0; s++ {
		switch vChoose("op", 0, 3) {
		case 0:
			page.Retain()
			holders++
		case 1:
			page.Release()
			holders--
		case 2:
			sl := page.Slice(0, 1).(*bufferedPage)
			slices = append(slices, sl)
			holders++
		case 3:
			if len(slices) > 0 {
				slices[len(slices)-1].Release()
				slices = slices[:len(slices)-1]
				holders--
			}
		}
		vAssert(int(values.refc.Load()) == holders, "values buffer count equals the number of holders")
		vAssert(int(levels.refc.Load()) == holders, "levels buffer count equals the number of holders")
		if holders > 0 {
			vAssert(values.data.Len() == 4, "buffer contents stay while a holder remains")
		}
	}
	vCover("history")
}

// C16.K3: clones share no memory with their source.
func VerifH_C16_cloneIndependent() {
	n := vChoose("len", 0, 3)
	src := vBytes("bytes", n)
	orig := append([]byte(nil), src...)
	kind := ByteArray
	if vChoose("fixed", 0, 1) == 1 {
		kind = FixedLenByteArray
	}
	row := Row{makeValueBytes(kind, src).Level(1, 2, 0), makeValueInt64(vI64("i")).Level(0, 1, 1)}
	clone := row.Clone()
	vAssert(len(clone) == 2, "clone has every value")
	vAssert(vBytesEq(clone[0].byteArray(), orig), "cloned bytes equal the source")
	vAssert(!vOverlap(clone[0].byteArray(), src), "cloned bytes do not share memory with the source")
	vAssert(clone[0].repetitionLevel == 1 && clone[0].definitionLevel == 2 && clone[0].Column() == 0 && clone[0].Kind() == kind, "levels, column and kind are kept")
	vAssert(clone[1].Int64() == row[1].Int64() && clone[1].Column() == 1, "scalar values are kept")
	// later activity on the source buffer does not reach the clone
	vHavoc("later", src)
	vAssert(vBytesEq(clone[0].byteArray(), orig), "clone unchanged after the source buffer is overwritten")
	vCover("cloned")
}

// C16.K4: the library does not modify what the caller passes to write calls.
func VerifH_C16_inputsUnmodified() {
	vUnwind(64)
	n := vChoose("n", 1, 3)
	vals := make([]Value, n)
	rep := make([]Value, n)
	for i := range vals {
		null := vChoose("null", 0, 1) == 1
		if null {
			vals[i] = Value{}.Level(0, 0, 0)
		} else {
			vals[i] = makeValueInt64(vI64("v")).Level(0, 1, 0)
		}
		r := 0
		if i > 0 {
			r = vChoose("rep", 0, 1)
		}
		rep[i] = makeValueInt64(vI64("r")).Level(r, 1, 0)
	}
	snapV := append([]Value(nil), vals...)
	snapR := append([]Value(nil), rep...)
	opt := newOptionalColumnBuffer(newInt64ColumnBuffer(Int64Type, 0, 4), 1, nullsGoLast)
	if _, err := opt.WriteValues(vals); err != nil {
		vAssert(false, "write")
	}
	rc := newRepeatedColumnBuffer(newInt64ColumnBuffer(Int64Type, 0, 4), 1, 1, nullsGoLast)
	if _, err := rc.WriteValues(rep); err != nil {
		vAssert(false, "write")
	}
	for i := range vals {
		vAssert(vals[i] == snapV[i], "optional column buffer leaves the caller's values untouched")
		vAssert(rep[i] == snapR[i], "repeated column buffer leaves the caller's values untouched")
	}
	// dedupe writer must not reorder or clear the caller's rows
	rows := make([]Row, n)
	keys := make([]int64, n)
	for i := range rows {
		keys[i] = int64(vI8("key"))
		rows[i] = Row{makeValueInt64(keys[i])}
	}
	sink := &verifRowSink{}
	dw := DedupeRowWriter(sink, func(a, b Row) int {
		switch x, y := a[0].int64(), b[0].int64(); {
		case x < y:
			return -1
		case x > y:
			return 1
		}
		return 0
	})
	if _, err := dw.WriteRows(rows); err != nil {
		vAssert(false, "dedupe write")
	}
	for i := range rows {
		vAssert(len(rows[i]) == 1 && rows[i][0].int64() == keys[i], "dedupe writer leaves the caller's rows in place")
	}
	vCover("written")
}

type verifRowSink struct{ n int }

func (s *verifRowSink) WriteRows(rows []Row) (int, error) { s.n += len(rows); return len(rows), nil }

// C16.K4 (RowBuffer): writing rows through the Row API copies byte-array values
// into the buffer's arena without re-pointing the caller's rows at it; a later
// Reset and more writes do not change the caller's rows.
func VerifH_C16_rowBufferInputs() {
	vUnwind(64)
	rb := NewRowBuffer[any](NewSchema("r", Group{"a": Leaf(ByteArrayType)}))
	n := vChoose("len", 1, 3)
	b := vBytes("first", n)
	orig := append([]byte(nil), b...)
	rows := []Row{{makeValueBytes(ByteArray, b).Level(0, 0, 0)}}
	if _, err := rb.WriteRows(rows); err != nil {
		vAssert(false, "write")
		return
	}
	vAssert(vOverlap(rows[0][0].byteArray(), b), "the caller's row still points at the caller's bytes")
	rb.Reset()
	other := vBytes("other", n)
	if _, err := rb.WriteRows([]Row{{makeValueBytes(ByteArray, other).Level(0, 0, 0)}}); err != nil {
		vAssert(false, "second write")
		return
	}
	vAssert(vBytesEq(rows[0][0].byteArray(), orig), "the caller's row is unchanged by Reset and later writes")
	vCover("written")
}

// C16.K4c: FilterRowWriter hands the accepted rows to the underlying writer and
// leaves the caller's rows as they were.
type verifCopyingRowWriter struct{ got []Row }

func (w *verifCopyingRowWriter) WriteRows(rows []Row) (int, error) {
	for _, r := range rows {
		w.got = append(w.got, r.Clone())
	}
	return len(rows), nil
}

func VerifH_C16_filterWriterKeepsInput() {
	vUnwind(256)
	n := vChoose("rows", 1, 3)
	rows := make([]Row, n)
	keep := make([]bool, n)
	want := make([]int64, n)
	for i := range rows {
		want[i] = vI64("v")
		rows[i] = Row{makeValueInt64(want[i]).Level(0, 0, 0), makeValueInt32(int32(i)).Level(0, 0, 1)}
		keep[i] = vChoose("accepted", 0, 1) == 1
	}
	sink := &verifCopyingRowWriter{}
	fw := FilterRowWriter(sink, func(r Row) bool { return keep[r[1].Int32()] })
	k, err := fw.WriteRows(rows)
	vAssert(err == nil && k == n, "all rows are consumed")
	j := 0
	for i := range rows {
		vAssert(len(rows[i]) == 2 && rows[i][0].Kind() == Int64 && rows[i][0].Int64() == want[i] && rows[i][1].Int32() == int32(i), "the caller's rows are not modified by the filter writer")
		if keep[i] {
			vAssert(j < len(sink.got) && sink.got[j][0].Int64() == want[i], "accepted rows reach the underlying writer in order")
			j++
		}
	}
	vAssert(j == len(sink.got), "rejected rows do not reach the underlying writer")
	vCover("filtered")
}

//go:build verif

package parquet

import (
	"bytes"
	"io"
)

// C10.K0 / C09.K0 on whole files. Rows carry a symbolic key (one signed byte
// widened to int64, so that page checksums stay cheap) and a concrete tag that
// identifies the row.

type verifRecM struct {
	Key int64 `parquet:"key"`
	Tag int32 `parquet:"tag"`
}

func verifKeysM(tagBase, n int) []verifRecM {
	rows := make([]verifRecM, n)
	for i := range rows {
		rows[i] = verifRecM{Key: int64(vI8("key")), Tag: int32(tagBase + i)}
	}
	return rows
}

func verifReadAllM(data []byte, max int) ([]verifRecM, *File, bool) {
	f, err := OpenFile(bytes.NewReader(data), int64(len(data)))
	if err != nil {
		vAssert(false, "file opens")
		return nil, nil, false
	}
	r := NewGenericReader[verifRecM](f)
	defer r.Close()
	out := make([]verifRecM, max+1)
	n, err := r.Read(out)
	if err != nil && err != io.EOF {
		vAssert(false, "rows are read")
		return nil, nil, false
	}
	return out[:n], f, true
}

// verifIsPermutationM: every input row appears exactly once in out (tags are unique).
func verifIsPermutationM(in, out []verifRecM) bool {
	if len(in) != len(out) {
		return false
	}
	ok := true
	for _, a := range in {
		found := 0
		for _, b := range out {
			if b.Tag == a.Tag {
				found++
				ok = vAll(ok, b.Key == a.Key)
			}
		}
		if found != 1 {
			return false
		}
	}
	return ok
}

// C10: the sorting writer outputs a correctly ordered permutation whatever the
// write batching and sort-run size, and records the ordering it produced.
func VerifH_C10_sortingWriterWholeFile() {
	vUnwind(1 << 16)
	vAbstractCRCFixedWidth() // page checksums are not the subject: an unknown function of the page bytes, of full encoded width
	n := vChoose("rows", 1, 3)
	rows := verifKeysM(0, n)
	desc := vChoose("descending", 0, 1) == 1
	col := Ascending("key")
	if desc {
		col = Descending("key")
	}
	buf := new(bytes.Buffer)
	w := NewSortingWriter[verifRecM](buf, int64(vChoose("sortRun", 1, 3)), SortingWriterConfig(SortingColumns(col)))
	split := vChoose("split", 0, n)
	if _, err := w.Write(rows[:split]); err != nil {
		vAssert(false, "first batch is accepted")
		return
	}
	if _, err := w.Write(rows[split:]); err != nil {
		vAssert(false, "second batch is accepted")
		return
	}
	if err := w.Close(); err != nil {
		vAssert(false, "sorting writer closes")
		return
	}
	out, f, ok := verifReadAllM(buf.Bytes(), n)
	if !ok {
		return
	}
	vAssert(verifIsPermutationM(rows, out), "the file holds a permutation of the rows written, each row intact")
	for i := 1; i < len(out); i++ {
		if desc {
			vAssert(out[i-1].Key >= out[i].Key, "rows are in descending key order")
		} else {
			vAssert(out[i-1].Key <= out[i].Key, "rows are in ascending key order")
		}
	}
	for _, rg := range f.RowGroups() {
		sc := rg.SortingColumns()
		vAssert(len(sc) == 1 && len(sc[0].Path()) == 1 && sc[0].Path()[0] == "key" && sc[0].Descending() == desc, "the file records the ordering that was configured")
	}
	vCover("sorted file")
}

// C09: a merge of sorted row groups (real files), read directly or written to a
// file with WriteRowGroup, is sorted, complete and keeps each input's order.
func VerifH_C09_mergeWholeFiles() {
	vUnwind(1 << 16)
	vAbstractCRCFixedWidth() // page checksums are not the subject: an unknown function of the page bytes, of full encoded width
	sorting := SortingColumns(Ascending("key"))
	na, nb := vChoose("rowsA", 0, 2), vChoose("rowsB", 1, 2)
	a, b := verifKeysM(100, na), verifKeysM(200, nb)
	for i := 1; i < na; i++ {
		vAssume(a[i-1].Key <= a[i].Key)
	}
	for i := 1; i < nb; i++ {
		vAssume(b[i-1].Key <= b[i].Key)
	}
	mk := func(rows []verifRecM) (RowGroup, bool) {
		buf := NewGenericBuffer[verifRecM](SortingRowGroupConfig(sorting))
		if _, err := buf.Write(rows); err != nil {
			return nil, false
		}
		if len(rows) == 0 || vChoose("fileBacked", 0, 1) == 0 {
			return buf, true // (an empty row group is not written to a file at all)
		}
		out := new(bytes.Buffer)
		w := NewGenericWriter[verifRecM](out, SortingWriterConfig(sorting))
		if _, err := w.WriteRowGroup(buf); err != nil {
			return nil, false
		}
		if w.Close() != nil {
			return nil, false
		}
		f, err := OpenFile(bytes.NewReader(out.Bytes()), int64(out.Len()))
		if err != nil || len(f.RowGroups()) != 1 {
			return nil, false
		}
		return f.RowGroups()[0], true
	}
	ra, ok1 := mk(a)
	rb, ok2 := mk(b)
	if !ok1 || !ok2 {
		vAssert(false, "inputs are built")
		return
	}
	m, err := MergeRowGroups([]RowGroup{ra, rb}, SortingRowGroupConfig(sorting))
	if err != nil {
		vAssert(false, "row groups merge")
		return
	}
	var out []verifRecM
	if vChoose("throughFile", 0, 1) == 1 {
		dst := new(bytes.Buffer)
		w := NewGenericWriter[verifRecM](dst, SortingWriterConfig(sorting))
		if _, err := w.WriteRowGroup(m); err != nil {
			vAssert(false, "merged row group is written")
			return
		}
		if err := w.Close(); err != nil {
			vAssert(false, "destination closes")
			return
		}
		var ok bool
		out, _, ok = verifReadAllM(dst.Bytes(), na+nb)
		if !ok {
			return
		}
	} else {
		rr := m.Rows()
		rowsBuf := make([]Row, vChoose("batch", 1, 2))
		schema := SchemaOf(verifRecM{})
		for k := 0; k < 8; k++ {
			n, err := rr.ReadRows(rowsBuf)
			for _, r := range rowsBuf[:n] {
				var v verifRecM
				if schema.Reconstruct(&v, r) != nil {
					vAssert(false, "row re-assembles")
					return
				}
				out = append(out, v)
			}
			if err != nil {
				vAssert(err == io.EOF, "merged rows end with io.EOF")
				break
			}
		}
		rr.Close()
	}
	all := append(append([]verifRecM{}, a...), b...)
	vAssert(verifIsPermutationM(all, out), "the merge holds every input row exactly once, intact")
	lastA, lastB := int32(-1), int32(-1)
	for i := range out {
		if i > 0 {
			vAssert(out[i-1].Key <= out[i].Key, "the merge is sorted")
		}
		if out[i].Tag < 200 {
			vAssert(out[i].Tag > lastA, "rows of the first input keep their order")
			lastA = out[i].Tag
		} else {
			vAssert(out[i].Tag > lastB, "rows of the second input keep their order")
			lastB = out[i].Tag
		}
	}
	vCover("merged")
}

//go:build verif

package parquet

import (
	"bytes"
	"compress/gzip"
	"errors"

	pgzip "github.com/parquet-go/parquet-go/compress/gzip"
)

// C07.K5: a bloom filter stored gzip-compressed is probed with the block count
// of the filter the writer built, not of the compressed bytes. The gzip codec
// (foreign loops) is replaced by its contract: Decode(Encode(x)) == x and the
// compressed form has a different length (a 40-byte frame around the data here,
// so a one-block filter compresses to 72 bytes: two "blocks" if mistaken for
// the filter itself).
//
//verif:replace (*github.com/parquet-go/parquet-go/compress/gzip.Codec).Encode => verifGzipEncode
//verif:replace (*github.com/parquet-go/parquet-go/compress/gzip.Codec).Decode => verifGzipDecode

const verifGzipFrame = 40

func verifGzipEncode(dst, src []byte) ([]byte, error) {
	dst = append(dst[:0], make([]byte, verifGzipFrame)...)
	dst[0], dst[1] = 0x1f, 0x8b
	return append(dst, src...), nil
}

func verifGzipDecode(dst, src []byte) ([]byte, error) {
	if len(src) < verifGzipFrame || src[0] != 0x1f || src[1] != 0x8b {
		return dst[:0], errors.New("gzip: invalid header")
	}
	return append(dst[:0], src[verifGzipFrame:]...), nil
}

func verifWriteGzipBloom(rows []verifRecI) ([]byte, bool) {
	buf := new(bytes.Buffer)
	w := NewGenericWriter[verifRecI](buf,
		BloomFilters(SplitBlockFilter(10, "id"), SplitBlockFilter(10, "name")),
		BloomFilterCompression(&pgzip.Codec{Level: gzip.BestSpeed}))
	if _, err := w.Write(rows); err != nil {
		return nil, false
	}
	if err := w.Close(); err != nil {
		return nil, false
	}
	return buf.Bytes(), true
}

func verifCheckGzipBloom(data []byte, rows []verifRecI) {
	f, err := OpenFile(bytes.NewReader(data), int64(len(data)))
	if err != nil {
		vAssert(false, "written file opens")
		return
	}
	chunks := f.RowGroups()[0].ColumnChunks()
	idFilter, nameFilter := chunks[0].BloomFilter(), chunks[1].BloomFilter()
	if idFilter == nil || nameFilter == nil {
		vAssert(false, "compressed bloom filters are readable")
		return
	}
	for _, r := range rows {
		ok, err := idFilter.Check(ValueOf(r.ID))
		vAssert(err == nil && ok, "a written int64 value is found in the gzip-compressed bloom filter")
		ok, err = nameFilter.Check(ValueOf(r.Name))
		vAssert(err == nil && ok, "a written string value is found in the gzip-compressed bloom filter")
	}
}

func VerifH_C07_gzipBloomFilter() {
	vUnwind(1 << 16)
	n := vChoose("rows", 1, 3)
	rows := make([]verifRecI, n)
	for i := range rows {
		rows[i] = verifRecI{ID: int64(100 + i), Name: string(rune('a' + i))}
	}
	// one symbolic byte keeps the CRC-32 and xxhash terms small; the glue under
	// test does not depend on the values
	rows[0].Name = vString("name", 1)
	data, ok := verifWriteGzipBloom(rows)
	if !ok {
		vAssert(false, "file is written")
		return
	}
	verifCheckGzipBloom(data, rows)
	vCover("gzip bloom")
}

// native re-enactment with the real gzip codec: many values so that the filter
// has several blocks and compresses to a different block count
func VerifS_C07_gzipBloomFilter() {
	rows := make([]verifRecI, 200)
	for i := range rows {
		rows[i] = verifRecI{ID: int64(7*i + 1), Name: string(rune('a' + i%26))}
	}
	if c, ok := vReplayVal("name[0]", 0); ok {
		rows[0].Name = string([]byte{byte(c)})
	}
	data, ok := verifWriteGzipBloom(rows)
	if !ok {
		vAssert(false, "file is written")
		return
	}
	verifCheckGzipBloom(data, rows)
}

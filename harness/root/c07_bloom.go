//go:build verif

package parquet

import (
	"bytes"

	"github.com/parquet-go/parquet-go/bloom"
	"github.com/parquet-go/parquet-go/deprecated"
	"github.com/parquet-go/parquet-go/encoding"
)

// C07.K2: a value written through the real page type and the writer's filter
// encoding is found by the reader-side hashing of the same Value.

func verifFilterCheck(filter []byte, v Value) bool {
	h := v.hash(bloom.XXH64{})
	ok, err := bloom.CheckSplitBlock(bytes.NewReader(filter), int64(len(filter)), h)
	return err == nil && ok
}

func verifFilterBytes() []byte {
	return make([]byte, bloom.BlockSize)
}

func VerifH_C07_bloomInt() {
	n := vChoose("n", 1, 2)
	a := make([]int32, n)
	b := make([]int64, n)
	for i := range a {
		a[i], b[i] = vI32("a"), vI64("b")
	}
	filter := verifFilterBytes()
	p := newInt32Page(Int32Type, 0, int32(n), encoding.Int32Values(a))
	filter, err := p.Type().Encode(filter, p.Data(), splitBlockEncoding{})
	vAssert(err == nil, "filter encode int32")
	for i := range a {
		vAssert(verifFilterCheck(filter, makeValueInt32(a[i])), "written int32 value is found")
	}
	filter = verifFilterBytes()
	p64 := newInt64Page(Int64Type, 0, int32(n), encoding.Int64Values(b))
	filter, err = p64.Type().Encode(filter, p64.Data(), splitBlockEncoding{})
	vAssert(err == nil, "filter encode int64")
	for i := range b {
		vAssert(verifFilterCheck(filter, makeValueInt64(b[i])), "written int64 value is found")
	}
	vCover("checked")
}

func VerifH_C07_bloomFloat() {
	n := vChoose("n", 1, 2)
	f := make([]float32, n)
	d := make([]float64, n)
	for i := range f {
		f[i], d[i] = vF32("f"), vF64("d")
	}
	filter := verifFilterBytes()
	p := newFloatPage(FloatType, 0, int32(n), encoding.FloatValues(f))
	filter, err := p.Type().Encode(filter, p.Data(), splitBlockEncoding{})
	vAssert(err == nil, "filter encode float")
	for i := range f {
		vAssert(verifFilterCheck(filter, makeValueFloat(f[i])), "written float value is found")
	}
	filter = verifFilterBytes()
	pd := newDoublePage(DoubleType, 0, int32(n), encoding.DoubleValues(d))
	filter, err = pd.Type().Encode(filter, pd.Data(), splitBlockEncoding{})
	vAssert(err == nil, "filter encode double")
	for i := range d {
		vAssert(verifFilterCheck(filter, makeValueDouble(d[i])), "written double value is found")
	}
	vCover("checked")
}

func VerifH_C07_bloomBoolean() {
	n := vChoose("n", 1, 9)
	bits := vBytes("bits", (n+7)/8)
	// padding bits of the last byte are zero, as the column buffer leaves them
	if n%8 != 0 {
		vAssume(bits[len(bits)-1]>>(uint(n)%8) == 0)
	}
	filter := verifFilterBytes()
	p := newBooleanPage(BooleanType, 0, int32(n), encoding.BooleanValues(bits))
	filter, err := p.Type().Encode(filter, p.Data(), splitBlockEncoding{})
	vAssert(err == nil, "filter encode boolean")
	hasTrue, hasFalse := []bool{}, []bool{}
	for i := 0; i < n; i++ {
		bit := bits[i/8]>>(uint(i)%8)&1 == 1
		hasTrue = append(hasTrue, bit)
		hasFalse = append(hasFalse, !bit)
	}
	vAssert(vImplies(vAny(hasTrue...), verifFilterCheck(filter, makeValueBoolean(true))), "written true is found")
	vAssert(vImplies(vAny(hasFalse...), verifFilterCheck(filter, makeValueBoolean(false))), "written false is found")
	vCover("checked")
}

func VerifH_C07_bloomBytes() {
	n := vChoose("n", 1, 2)
	// variable-length byte arrays
	var data []byte
	offs := []uint32{0}
	vals := make([][]byte, n)
	for i := 0; i < n; i++ {
		vals[i] = vBytes("ba", vChoose("len", 0, 5))
		data = append(data, vals[i]...)
		offs = append(offs, uint32(len(data)))
	}
	filter := verifFilterBytes()
	p := newByteArrayPage(ByteArrayType, 0, int32(n), encoding.ByteArrayValues(data, offs))
	filter, err := p.Type().Encode(filter, p.Data(), splitBlockEncoding{})
	vAssert(err == nil, "filter encode byte array")
	for i := range vals {
		vAssert(verifFilterCheck(filter, makeValueBytes(ByteArray, vals[i])), "written byte array is found")
	}
	// fixed-len of 16 (UUID fast path) and of 5 (generic path)
	for _, size := range []int{16, 5} {
		fd := vBytes("flba", size*n)
		filter = verifFilterBytes()
		var pg Page
		if size == 16 {
			pg = newBE128Page(FixedLenByteArrayType(16), 0, int32(n), encoding.FixedLenByteArrayValues(fd, 16))
		} else {
			pg = newFixedLenByteArrayPage(FixedLenByteArrayType(size), 0, int32(n), encoding.FixedLenByteArrayValues(fd, size))
		}
		filter, err = pg.Type().Encode(filter, pg.Data(), splitBlockEncoding{})
		vAssert(err == nil, "filter encode fixed-len")
		for i := 0; i < n; i++ {
			vAssert(verifFilterCheck(filter, makeValueBytes(FixedLenByteArray, fd[i*size:(i+1)*size])), "written fixed-len value is found")
		}
	}
	// int96
	i96 := make([]deprecated.Int96, n)
	for i := range i96 {
		i96[i] = deprecated.Int96{vU32("w0"), vU32("w1"), vU32("w2")}
	}
	filter = verifFilterBytes()
	p96 := newInt96Page(Int96Type, 0, int32(n), encoding.Int96Values(i96))
	filter, err = p96.Type().Encode(filter, p96.Data(), splitBlockEncoding{})
	vAssert(err == nil, "filter encode int96")
	for i := range i96 {
		vAssert(verifFilterCheck(filter, makeValueInt96(i96[i])), "written int96 value is found")
	}
	vCover("checked")
}

//go:build verif

package parquet

import (
	"bytes"
	"errors"
	"io"
)

// C13.K0 on whole files: one byte inside the body of a data or dictionary page
// of a real file is changed by an arbitrary non-zero mask (every position of
// every page body by case split, the mask symbolic); every way of reading rows
// that touches the page (also across row groups) returns an error wrapping ErrCorrupted, none returns
// rows and none panics: sequential generic reads, reads after a seek (which
// load the dictionary lazily) and the row reader of the row group.

// specPageBodies lists the [start,end) byte ranges of all page bodies of a file, found by the spec reader.
func specPageBodies(file []byte) (ranges [][2]int64, ok bool) {
	f, ok := specOpen(file)
	if !ok {
		return nil, false
	}
	for _, rg := range f.footer.items(4) {
		for ci, chunk := range rg.items(1) {
			meta := chunk.field(3)
			if meta == nil || ci >= len(f.leaves) {
				return nil, false
			}
			_, pages, ok := specReadChunk(file, meta, f.leaves[ci].maxRep, f.leaves[ci].maxDef)
			if !ok {
				return nil, false
			}
			for _, p := range pages {
				if p.size > p.hdrLen {
					ranges = append(ranges, [2]int64{p.offset + p.hdrLen, p.offset + p.size})
				}
			}
		}
	}
	return ranges, true
}

func VerifH_C13_wholeFileCorruption() {
	vUnwind(1 << 16)
	rows := []verifRecH{{ID: 1, Name: "ab", Tags: []int32{1, 2}}, {ID: 2, Name: "c"}, {ID: 3, Name: "ab", Tags: []int32{7}}}
	var opts []WriterOption
	if vChoose("v1", 0, 1) == 1 {
		opts = append(opts, DataPageVersion(1))
	}
	smallPages := false
	switch vChoose("layout", 0, 2) {
	case 1:
		smallPages = true
		opts = append(opts, PageBufferSize(1))
	case 2: // one row per row group: the file-level readers chain the row groups
		smallPages = true
		opts = append(opts, MaxRowsPerRowGroup(1))
	}
	buf := new(bytes.Buffer)
	if err := verifWriteH(buf, rows, opts, false); err != nil {
		vAssert(false, "file is written")
		return
	}
	data := append([]byte(nil), buf.Bytes()...)
	bodies, ok := specPageBodies(data)
	if !ok || len(bodies) == 0 {
		vAssert(false, "page bodies are located")
		return
	}
	b := bodies[vChoose("page", 0, len(bodies)-1)]
	pos := b[0] + int64(vChoose("byte", 0, int(b[1]-b[0])-1))
	mask := vU8("mask")
	vAssume(mask != 0)
	data[pos] ^= mask

	f, err := OpenFile(bytes.NewReader(data), int64(len(data)))
	if err != nil {
		vAssert(false, "the footer is intact, the file opens")
		return
	}
	corrupted := func(err error) bool { return err != nil && err != io.EOF && errors.Is(err, ErrCorrupted) }
	switch vChoose("access", 0, 2) {
	case 0: // sequential
		r := NewGenericReader[verifRecH](f)
		out := make([]verifRecH, len(rows)+1)
		n, err := r.Read(out)
		vAssert(corrupted(err), "sequential read reports the corruption")
		vAssert(n < len(rows), "not all rows are returned as data")
		r.Close()
	case 1: // seek first: pages are reached through the offset index, dictionaries are loaded lazily
		r := NewGenericReader[verifRecH](f)
		k := vChoose("seekTo", 1, len(rows)-1)
		err := r.SeekToRow(int64(k))
		if err != nil {
			vAssert(corrupted(err), "a seek fails only with a corruption error")
		} else {
			out := make([]verifRecH, len(rows))
			n, rerr := r.Read(out)
			if rerr != nil && rerr != io.EOF {
				vAssert(corrupted(rerr), "a read after a seek fails only with a corruption error")
			} else {
				// the altered page was not needed (it holds earlier rows only): what is returned is the data
				vAssert(n == len(rows)-k && verifSameH(out[:n], rows[k:]), "rows returned without an error are the rows written")
				vAssert(smallPages, "with one page per chunk every read touches the altered page")
			}
		}
		r.Close()
	case 2: // row reader over the row groups
		rr := MultiRowGroup(f.RowGroups()...).Rows() // all row groups, chained
		out := make([]Row, len(rows)+1)
		n, err := rr.ReadRows(out)
		vAssert(corrupted(err), "row group rows report the corruption")
		vAssert(n < len(rows), "not all rows are returned as data")
		rr.Close()
	}
	vCover("corrupted")
}


// After a read has reported a corrupted page, trying again does not turn into
// wrong data: a SeekToRow back to the rows of that page followed by ReadPage
// reports the corruption again (or returns those very rows), it never returns
// the rows of the following page in their place.
func VerifH_C13_retryAfterCorruption() {
	vUnwind(1 << 16)
	rows := []verifRecH{{ID: 1, Name: "ab", Tags: []int32{1, 2}}, {ID: 2, Name: "c"}, {ID: 3, Name: "ab", Tags: []int32{7}}, {ID: 4, Name: "d"}}
	buf := new(bytes.Buffer)
	w := NewGenericWriter[verifRecH](buf, PageBufferSize(1)) // one page per row
	for i := range rows {
		if _, err := w.Write(rows[i : i+1]); err != nil {
			vAssert(false, "rows are accepted")
			return
		}
	}
	if err := w.Close(); err != nil {
		vAssert(false, "file closes")
		return
	}
	data := append([]byte(nil), buf.Bytes()...)
	f0, err := OpenFile(bytes.NewReader(data), int64(len(data)))
	if err != nil {
		vAssert(false, "file opens")
		return
	}
	// the id column: page k holds row k; corrupt one byte of page k's body
	oi, err := f0.RowGroups()[0].ColumnChunks()[0].OffsetIndex()
	if err != nil || oi.NumPages() != len(rows) {
		vAssert(false, "one page per row")
		return
	}
	k := vChoose("page", 0, len(rows)-2)
	end := oi.Offset(k) + oi.CompressedPageSize(k)
	pos := end - 1 - int64(vChoose("byteFromEnd", 0, 7)) // the 8 value bytes at the end of the page
	mask := vU8("mask")
	vAssume(mask != 0)
	data[pos] ^= mask
	f, err := OpenFile(bytes.NewReader(data), int64(len(data)))
	if err != nil {
		vAssert(false, "the footer is intact, the file opens")
		return
	}
	pages := f.RowGroups()[0].ColumnChunks()[0].Pages()
	defer pages.Close()
	if vChoose("seekFirst", 0, 1) == 1 {
		if err := pages.SeekToRow(int64(k)); err != nil {
			vAssert(errors.Is(err, ErrCorrupted), "a seek fails only with a corruption error")
			return
		}
	} else {
		for i := 0; i < k; i++ {
			p, err := pages.ReadPage()
			if err != nil {
				vAssert(false, "pages before the altered one are readable")
				return
			}
			Release(p)
		}
	}
	p, err := pages.ReadPage()
	vAssert(err != nil && errors.Is(err, ErrCorrupted) && p == nil, "the altered page is reported as corrupted")
	// try again
	if err := pages.SeekToRow(int64(k)); err != nil {
		vAssert(errors.Is(err, ErrCorrupted), "a seek fails only with a corruption error")
		return
	}
	p, err = pages.ReadPage()
	if err != nil {
		vAssert(errors.Is(err, ErrCorrupted), "the retry reports the corruption again")
	} else {
		vals := make([]Value, 4)
		n, _ := p.Values().ReadValues(vals)
		vAssert(n == 1 && vals[0].Int64() == rows[k].ID, "a retry that returns data returns the rows asked for")
		Release(p)
	}
	vCover("retry")
}

//go:build verif

package parquet

import "bytes"

// C05.K3/C06: the fixed-length and variable byte-array indexers claim an order
// only if it is true of both the minima and the maxima of the non-null pages,
// and Find with the nulls-first comparator of the documentation never misses.
func VerifH_C06_byteArrayIndexerOrder() {
	vUnwind(32)
	P := vChoose("pages", 2, 3)
	fixed := vChoose("fixedLen", 0, 1) == 1
	var ix ColumnIndexer
	kind := ByteArray
	if fixed {
		ix = newFixedLenByteArrayColumnIndexer(2, 0)
		kind = FixedLenByteArray
	} else {
		ix = newByteArrayColumnIndexer(0)
	}
	mins := make([][]byte, P)
	maxs := make([][]byte, P)
	for i := 0; i < P; i++ {
		mins[i], maxs[i] = vBytes("min", 2), vBytes("max", 2)
		vAssume(bytes.Compare(mins[i], maxs[i]) <= 0)
		ix.IndexPage(3, 0, makeValueBytes(kind, mins[i]), makeValueBytes(kind, maxs[i]))
	}
	fci := ix.ColumnIndex()
	ci := NewColumnIndex(kind, &fci)
	asc, desc := []bool{}, []bool{}
	for i := 0; i+1 < P; i++ {
		asc = append(asc, bytes.Compare(mins[i], mins[i+1]) <= 0, bytes.Compare(maxs[i], maxs[i+1]) <= 0)
		desc = append(desc, bytes.Compare(mins[i], mins[i+1]) >= 0, bytes.Compare(maxs[i], maxs[i+1]) >= 0)
	}
	vAssert(vImplies(ci.IsAscending(), vAll(asc...)), "claimed ascending order holds for minima and maxima")
	vAssert(vImplies(ci.IsDescending(), vAll(desc...)), "claimed descending order holds for minima and maxima")
	// and Search never misses a page whose bounds contain the probe
	v := vBytes("probe", 2)
	hidden := vChoose("hidden", 0, P-1)
	vAssume(vAll(bytes.Compare(mins[hidden], v) <= 0, bytes.Compare(v, maxs[hidden]) <= 0))
	typ := Type(ByteArrayType)
	if fixed {
		typ = FixedLenByteArrayType(2)
	}
	r := Search(ci, makeValueBytes(kind, v), typ)
	vAssert(r <= hidden, "search result is not past a page that contains the value")
	vCover("indexed")
}

func VerifH_C06_findNullsFirst() {
	vUnwind(32)
	P := vChoose("pages", 1, 3)
	nullMask := vChoose("nullmask", 0, 1<<P-1)
	ix := newInt32ColumnIndexer()
	mins := make([]int32, P)
	maxs := make([]int32, P)
	for i := 0; i < P; i++ {
		if nullMask>>i&1 == 1 {
			ix.IndexPage(3, 3, Value{}, Value{})
			continue
		}
		mins[i], maxs[i] = vI32("min"), vI32("max")
		vAssume(mins[i] <= maxs[i])
		ix.IndexPage(3, 0, makeValueInt32(mins[i]), makeValueInt32(maxs[i]))
	}
	fci := ix.ColumnIndex()
	ci := NewColumnIndex(Int32, &fci)
	v := vI32("probe")
	hidden := vChoose("hidden", 0, P-1)
	vAssume(nullMask>>hidden&1 == 0)
	vAssume(vAll(mins[hidden] <= v, v <= maxs[hidden]))
	r := Find(ci, makeValueInt32(v), CompareNullsFirst(Int32Type.Compare))
	vAssert(r <= hidden, "Find with the nulls-first comparator is not past a page that contains the value")
	if r < P {
		vAssert(nullMask>>r&1 == 0 && mins[r] <= v && v <= maxs[r], "returned page bounds contain the value")
	}
	vCover("found")
}

//go:build verif

package parquet

import (
	"crypto/cipher"
	"errors"
)

// C18.K2: module envelope framing with AES-GCM abstracted as an ideal AEAD:
// Open(k, n, Seal(k, n, p, a), a) = p, any other (key, nonce, aad, ciphertext)
// fails, ciphertext bytes are fresh symbols independent of the plaintext.
//
//verif:replace crypto/aes.NewCipher => verifNewCipher
//verif:replace crypto/cipher.NewGCM => verifNewGCM
//verif:replace (*crypto/rand.reader).Read => verifRandRead

type verifBlock struct{ key []byte }

func (b *verifBlock) BlockSize() int          { return 16 }
func (b *verifBlock) Encrypt(dst, src []byte) { panic("model block cipher is never used directly") }
func (b *verifBlock) Decrypt(dst, src []byte) { panic("model block cipher is never used directly") }

func verifNewCipher(key []byte) (cipher.Block, error) {
	if len(key) != 16 && len(key) != 24 && len(key) != 32 {
		return nil, errors.New("invalid key size")
	}
	return &verifBlock{key: append([]byte(nil), key...)}, nil
}

type verifSeal struct {
	key, nonce, aad, pt, ct []byte
}

var verifSeals []verifSeal

type verifAEAD struct{ key []byte }

func (a *verifAEAD) NonceSize() int { return encNonceSize }
func (a *verifAEAD) Overhead() int  { return encTagSize }
func (a *verifAEAD) Seal(dst, nonce, plaintext, aad []byte) []byte {
	ct := vBytes("ciphertext", len(plaintext)+encTagSize)
	verifSeals = append(verifSeals, verifSeal{append([]byte(nil), a.key...), append([]byte(nil), nonce...), append([]byte(nil), aad...), append([]byte(nil), plaintext...), ct})
	return append(dst, ct...)
}
func (a *verifAEAD) Open(dst, nonce, ciphertext, aad []byte) ([]byte, error) {
	for _, s := range verifSeals {
		if vAll(vBytesEq(s.key, a.key), vBytesEq(s.nonce, nonce), vBytesEq(s.aad, aad), vBytesEq(s.ct, ciphertext)) {
			return append(dst, s.pt...), nil
		}
	}
	return nil, errors.New("cipher: message authentication failed")
}

func verifNewGCM(b cipher.Block) (cipher.AEAD, error) {
	return &verifAEAD{key: b.(*verifBlock).key}, nil
}

func verifRandRead(b []byte) (int, error) {
	vHavoc("nonce", b)
	return len(b), nil
}

func VerifH_C18_envelope() {
	vUnwind(64)
	verifSeals = nil
	key := vBytes("key", 16)
	aad := vBytes("aad", 2)
	pt := vBytes("plaintext", vChoose("ptLen", 0, 3))
	env, err := encryptModule(key, aad, pt)
	vAssert(err == nil, "encrypt succeeds")
	vAssert(len(env) == len(pt)+encOverhead, "envelope size is plaintext + overhead")
	got, err := decryptModule(key, aad, env)
	vAssert(err == nil, "decrypt of the untouched envelope succeeds")
	vAssert(vBytesEq(got, pt), "decrypt returns the plaintext")
	// tampering: never a panic, always an error
	switch vChoose("tamper", 0, 4) {
	case 0: // truncation at any point
		cut := vChoose("cut", 0, len(env)-1)
		_, err = decryptModule(key, aad, env[:cut])
		vAssert(err != nil, "a truncated envelope is rejected")
	case 1: // any change of one byte, length word included
		i := vChoose("pos", 0, len(env)-1)
		d := vU8("delta")
		vAssume(d != 0)
		bad := append([]byte(nil), env...)
		bad[i] ^= d
		_, err = decryptModule(key, aad, bad)
		vAssert(err != nil, "an envelope with an altered byte is rejected")
	case 2: // another module's AAD (transplanting)
		aad2 := vBytes("aad2", 2)
		vAssume(!vBytesEq(aad, aad2))
		_, err = decryptModule(key, aad2, env)
		vAssert(err != nil, "an envelope opened with another module's AAD is rejected")
	case 3: // wrong key
		key2 := vBytes("key2", 16)
		vAssume(!vBytesEq(key, key2))
		_, err = decryptModule(key2, aad, env)
		vAssert(err != nil, "an envelope opened with the wrong key is rejected")
	case 4: // trailing bytes after the envelope are ignored, not read as data
		ext := append(append([]byte(nil), env...), vBytes("trailing", 2)...)
		got, err = decryptModule(key, aad, ext)
		vAssert(err == nil && vBytesEq(got, pt), "trailing bytes do not change the result")
	}
	vCover("envelope")
}

// native re-enactment with the real AES-GCM
func VerifS_C18_envelope() {
	key := []byte("0123456789abcdef")
	aad := []byte{1, 2}
	pt := []byte{9, 8, 7}
	env, err := encryptModule(key, aad, pt)
	vAssert(err == nil && len(env) == len(pt)+encOverhead, "scenario: encrypt")
	got, err := decryptModule(key, aad, env)
	vAssert(err == nil && string(got) == string(pt), "scenario: round trip")
	for cut := 0; cut < len(env); cut++ {
		func() {
			defer func() {
				if recover() != nil {
					vAssert(false, "scenario: truncated envelope must not panic")
				}
			}()
			_, err := decryptModule(key, aad, env[:cut])
			vAssert(err != nil, "scenario: a truncated envelope is rejected")
		}()
	}
	for i := range env {
		bad := append([]byte(nil), env...)
		bad[i] ^= 0x40
		func() {
			defer func() {
				if recover() != nil {
					vAssert(false, "scenario: altered envelope must not panic")
				}
			}()
			_, err := decryptModule(key, aad, bad)
			vAssert(err != nil, "scenario: an envelope with an altered byte is rejected")
		}()
	}
	_, err = decryptModule(key, []byte{1, 3}, env)
	vAssert(err != nil, "scenario: wrong AAD rejected")
	_, err = decryptModule([]byte("0123456789abcdeX"), aad, env)
	vAssert(err != nil, "scenario: wrong key rejected")
	vCover("scenario")
}

//go:build verif

package parquet

// C09.K5b: four row groups on one sorting column, so that one wide range can
// enclose several narrower, mutually disjoint ones: the running maximum of a
// segment must never shrink. Same oracle as C09_disjointSegments.
func VerifH_C09_nestedRanges() {
	vUnwind(64)
	schema := NewSchema("s", Group{"a": Leaf(Int64Type)})
	desc := vChoose("descending", 0, 1) == 1
	var sa SortingColumn = Ascending("a")
	if desc {
		sa = Descending("a")
	}
	sorting := []SortingColumn{sa}
	compare := schema.Comparator(sorting...)
	const G = 4
	type rg struct{ first, last Row }
	groups := make([]rg, G)
	rgs := make([]RowGroup, G)
	for i := 0; i < G; i++ {
		fa, la := int64(vI8("fa")), int64(vI8("la"))
		groups[i] = rg{first: Row{makeValueInt64(fa).Level(0, 0, 0)}, last: Row{makeValueInt64(la).Level(0, 0, 0)}}
		vAssume(compare(groups[i].first, groups[i].last) <= 0)
		minA, maxA := fa, la
		if desc {
			minA, maxA = la, fa
		}
		rgs[i] = &verifRG{id: i, chunks: []ColumnChunk{&verifCC{ci: &verifCI{min: makeValueInt64(minA), max: makeValueInt64(maxA)}}}}
	}
	var segments [][]int
	seen := make([]int, G)
	for seg := range overlappingRowGroups(rgs, schema, sorting, compare) {
		var ids []int
		for _, rr := range seg {
			id := rr.rowGroup.(*verifRG).id
			ids = append(ids, id)
			seen[id]++
		}
		segments = append(segments, ids)
	}
	for i := 0; i < G; i++ {
		vAssert(seen[i] == 1, "every row group is in exactly one segment")
	}
	for s := 0; s < len(segments); s++ {
		for t := s + 1; t < len(segments); t++ {
			for _, i := range segments[s] {
				for _, j := range segments[t] {
					vAssert(compare(groups[i].last, groups[j].first) <= 0, "row groups in different segments are ordered")
				}
			}
		}
	}
	vCover("nested ranges")
}

//go:build verif

package parquet

import (
	"bytes"
	"errors"
	"io"

	"github.com/parquet-go/parquet-go/encoding/thrift"
	"github.com/parquet-go/parquet-go/format"
)

// C13.K2: every path that loads a page body goes through the checksum. Here:
// the lazy dictionary load used after a seek (FilePages.readDictionary). The
// Thrift header decode is replaced by a stub that yields the header the writer
// stored; the dictionary decoder is replaced by a recorder that must never see
// an altered body.
//
//verif:replace (*github.com/parquet-go/parquet-go/encoding/thrift.Decoder).Decode => verifThriftDecodeHeader
//verif:replace (*Column).decodeDictionary => verifDecodeDictionary

var (
	verifStoredHeader format.PageHeader
	verifOrigBody     []byte
	verifSawAltered   bool
	verifDecoded      bool
)

func verifThriftDecodeHeader(d *thrift.Decoder, v any) error {
	h, ok := v.(*format.PageHeader)
	if !ok {
		return errors.New("unexpected thrift decode target")
	}
	*h = verifStoredHeader
	return nil
}

func verifDecodeDictionary(c *Column, header DictionaryPageHeader, page *buffer[byte], size int32) (Dictionary, error) {
	verifDecoded = true
	if !vBytesEq(page.data.Slice(), verifOrigBody) {
		verifSawAltered = true
	}
	return nil, nil
}

func VerifH_C13_lazyDictionary() {
	n := vChoose("n", 1, 2+vTier())
	body := vBytes("body", n)
	crc := verifWriterCRC(nil, nil, body)
	vAssume(crc != 0)
	mask := vBytes("flip", n)
	vAssume(!vBytesEq(mask, make([]byte, n)))
	stored := make([]byte, n)
	for i := range stored {
		stored[i] = body[i] ^ mask[i]
	}
	verifOrigBody = body
	verifSawAltered, verifDecoded = false, false
	verifStoredHeader = format.PageHeader{Type: format.DictionaryPage, CompressedPageSize: int32(n), UncompressedPageSize: int32(n), CRC: int32(crc)}
	verifStoredHeader.DictionaryPageHeader.Valid = true
	verifStoredHeader.DictionaryPageHeader.V.NumValues = 1
	f := verifPagesFor()
	f.bufferSize = 16
	f.section = *io.NewSectionReader(bytes.NewReader(stored), 0, int64(n))
	err := f.readDictionary()
	vAssert(!verifSawAltered, "the dictionary decoder never receives an altered page body")
	vAssert(vImplies(err == nil, !verifDecoded || !verifSawAltered), "no dictionary is built from an altered body")
	vAssert(err != nil, "loading an altered dictionary page reports an error")
	if err != nil {
		vAssert(errors.Is(err, ErrCorrupted), "the error identifies corruption")
	}
	vCover("loaded")
}

// Native re-enactment through the public API: corrupt the last byte of the
// dictionary page body of a real file and reach it by a seek.
func VerifS_C13_lazyDictionary() {
	type row struct {
		A int64 `parquet:"a,dict"`
	}
	buf := new(bytes.Buffer)
	w := NewGenericWriter[row](buf, PageBufferSize(256))
	rows := make([]row, 400)
	for i := range rows {
		rows[i].A = int64(i%7) * 1000003
	}
	if _, err := w.Write(rows); err != nil {
		vAssert(false, "scenario: write")
		return
	}
	if err := w.Close(); err != nil {
		vAssert(false, "scenario: close")
		return
	}
	data := buf.Bytes()
	f, err := OpenFile(bytes.NewReader(data), int64(len(data)))
	if err != nil {
		vAssert(false, "scenario: open")
		return
	}
	md := f.Metadata().RowGroups[0].Columns[0].MetaData
	if md.DictionaryPageOffset == 0 || md.DataPageOffset <= md.DictionaryPageOffset {
		vAssert(false, "scenario: file has no dictionary page")
		return
	}
	corrupted := append([]byte(nil), data...)
	corrupted[md.DataPageOffset-1] ^= 0x01 // last byte of the dictionary page body
	f2, err := OpenFile(bytes.NewReader(corrupted), int64(len(corrupted)))
	if err != nil {
		vCover("scenario: corruption detected at open")
		return
	}
	pages := f2.RowGroups()[0].ColumnChunks()[0].Pages()
	defer pages.Close()
	if err := pages.SeekToRow(200); err != nil {
		vAssert(errors.Is(err, ErrCorrupted), "seek error identifies corruption")
		return
	}
	p, err := pages.ReadPage()
	if err == nil && p != nil {
		vals := make([]Value, p.NumValues())
		_, err = p.Values().ReadValues(vals)
		if err == io.EOF {
			err = nil
		}
	}
	vAssert(err != nil, "reading a page that needs the corrupted dictionary after a seek reports an error")
	vCover("scenario")
}

//go:build verif

package parquet

// C01.K7: when a dictionary column falls back to PLAIN in the middle of a row
// group, the buffer that takes the following values must be configured for the
// same levels as the column's regular buffer: the same values written to both
// read back identically, with their levels, and equal to what was written.
func VerifH_C01_dictionaryFallbackBuffer() {
	vUnwind(64)
	shapes := [][2]byte{{0, 0}, {0, 1}, {0, 2}, {1, 1}, {1, 2}, {1, 3}, {2, 3}}
	sh := shapes[vChoose("levels", 0, len(shapes)-1)]
	maxRep, maxDef := sh[0], sh[1]
	mk := func() *ColumnWriter {
		return &ColumnWriter{columnType: Int64Type, maxRepetitionLevel: maxRep, maxDefinitionLevel: maxDef, bufferSize: 64}
	}
	n := vChoose("n", 1, 3)
	vals := make([]Value, n)
	for i := range vals {
		rep := 0
		if i > 0 && maxRep > 0 {
			rep = vChoose("rep", 0, int(maxRep))
		}
		def := int(maxDef)
		if maxDef > 0 {
			def = vChoose("def", 0, int(maxDef))
		}
		if def == int(maxDef) {
			vals[i] = makeValueInt64(vI64("v")).Level(rep, def, 0)
		} else {
			vals[i] = Value{}.Level(rep, def, 0)
		}
	}
	ref := mk()
	refBuf := ref.newColumnBuffer()
	fb := mk()
	if err := fb.fallbackDictionaryToPlain(); err != nil {
		vAssert(false, "fallback succeeds")
		return
	}
	vAssert(fb.hasSwitchedToPlain && fb.columnBuffer != nil, "writer switched to a plain buffer")
	in1 := append([]Value(nil), vals...)
	in2 := append([]Value(nil), vals...)
	n1, e1 := refBuf.WriteValues(in1)
	n2, e2 := fb.columnBuffer.WriteValues(in2)
	vAssert(e1 == nil && e2 == nil && n1 == n && n2 == n, "both buffers accept the values")
	a := verifReadAll(refBuf.Page())
	b := verifReadAll(fb.columnBuffer.Page())
	vAssert(len(a) == n && len(b) == n, "both buffers hold every value")
	for i := 0; i < n && i < len(a) && i < len(b); i++ {
		vAssert(a[i].repetitionLevel == vals[i].repetitionLevel && a[i].definitionLevel == vals[i].definitionLevel, "regular buffer keeps the levels")
		vAssert(b[i].repetitionLevel == vals[i].repetitionLevel && b[i].definitionLevel == vals[i].definitionLevel, "fallback buffer keeps the levels")
		if vals[i].definitionLevel == maxDef {
			vAssert(!b[i].IsNull() && b[i].Int64() == vals[i].Int64(), "fallback buffer keeps the values")
		} else {
			vAssert(b[i].IsNull(), "fallback buffer keeps the nulls")
		}
	}
	vCover("fallback")
}

//go:build verif

package parquet

import (
	"bytes"
)

// C17.K2: Writer.Reset must leave the writer in the state of a freshly
// constructed one. Concrete-prefix harness: the real newWriter wires the column
// writers, the real writeRowGroup records a row group (page flushing and file
// header are stubbed away: no page is buffered), the real reset runs, and the
// state that feeds the next file's footer is compared with a fresh writer's.
//
//verif:replace (*ColumnWriter).Flush => verifC17NopErr
//verif:replace (*ColumnWriter).flushFilterPages => verifC17NopErr
//verif:replace (*writer).writeFileHeader => verifC17NopHeader
//verif:replace (*ColumnWriter).totalRowCount => verifC17OneRow

func verifC17NopErr(c *ColumnWriter) error  { return nil }
func verifC17NopHeader(w *writer) error     { return nil }
func verifC17OneRow(c *ColumnWriter) int64  { return 1 }

func verifC17Config() *WriterConfig {
	cfg := DefaultWriterConfig()
	cfg.Schema = NewSchema("root", Group{
		"a": Leaf(Int64Type),
		"b": Group{"c": Optional(Leaf(Int32Type))},
	})
	return cfg
}

func verifC17Footprint(w *writer) []string {
	var fp []string
	for _, c := range w.currentRowGroup.columns {
		fp = append(fp, "path:"+columnPathString(c.columnPath))
		for _, e := range c.encodings {
			fp = append(fp, "enc:"+e.String())
		}
		fp = append(fp, "type:"+c.columnType.String())
	}
	for i := range w.currentRowGroup.columnChunk {
		md := &w.currentRowGroup.columnChunk[i].MetaData
		fp = append(fp, "chunkpath:"+columnPathString(columnPath(md.PathInSchema)))
		fp = append(fp, "chunktype:"+md.Type.String())
	}
	for _, e := range w.schemaElements {
		fp = append(fp, "schema:"+e.Name)
	}
	return fp
}

func VerifH_C17_resetRestoresWriter() {
	vUnwind(64)
	fresh := newWriter(new(bytes.Buffer), verifC17Config())
	want := verifC17Footprint(fresh)

	w := newWriter(new(bytes.Buffer), verifC17Config())
	groups := vChoose("rowGroupsBeforeReset", 1, 2)
	for g := 0; g < groups; g++ {
		if _, err := w.writeRowGroup(w.currentRowGroup, nil, nil); err != nil {
			vAssert(false, "recording a row group succeeds")
			return
		}
	}
	vAssert(len(w.rowGroups) == groups, "row groups were recorded")
	w.reset(new(bytes.Buffer))
	got := verifC17Footprint(w)
	vAssert(len(got) == len(want), "footprint length")
	for i := range want {
		if i < len(got) {
			vAssert(got[i] == want[i], "after Reset the writer state equals a fresh writer's: "+want[i])
		}
	}
	// and the next file's recorded row group carries the right column paths
	if _, err := w.writeRowGroup(w.currentRowGroup, nil, nil); err != nil {
		vAssert(false, "recording a row group after reset succeeds")
		return
	}
	vAssert(len(w.rowGroups) == 1, "one row group after reset")
	if len(w.rowGroups) == 1 {
		for i, c := range w.currentRowGroup.columns {
			vAssert(columnPathString(columnPath(w.rowGroups[0].Columns[i].MetaData.PathInSchema)) == columnPathString(c.columnPath) && len(c.columnPath) > 0 && c.columnPath[0] != "", "row group recorded after Reset names its columns")
		}
	}
	vCover("reset")
}

// Native re-enactment: the same rows written to a fresh writer and to a writer
// reused through Reset must give identical bytes.
func VerifS_C17_resetRestoresWriter() {
	type row struct {
		A int64
		B struct {
			C *int32
		}
	}
	rows := []row{{A: 1}, {A: 2}}
	write := func(w *GenericWriter[row]) bool {
		if _, err := w.Write(rows); err != nil {
			return false
		}
		return w.Close() == nil
	}
	b1, b2 := new(bytes.Buffer), new(bytes.Buffer)
	w := NewGenericWriter[row](b1)
	if !write(w) {
		vAssert(false, "scenario: first file")
		return
	}
	w.Reset(b2)
	if !write(w) {
		vAssert(false, "scenario: second file")
		return
	}
	vAssert(bytes.Equal(b1.Bytes(), b2.Bytes()), "a writer reused through Reset produces the same bytes as the first use")
	vCover("scenario")
}


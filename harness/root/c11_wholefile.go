//go:build verif

package parquet

import "bytes"

// C11.K0 on whole files: a row group handed to WriteRowGroup ends up in the
// destination file as the same rows in the same order as writing them one by
// one, after any rows that were still pending, whatever fast path the writer
// picks (verbatim chunk copy, segment packing, column-wise re-encode, row
// path), and the destination's own settings are honoured (data page version,
// MaxRowsPerRowGroup). The destination bytes are decoded by the specification
// reader of C02, so the spliced or re-encoded chunks are also checked for
// well-formedness.

// (fields in alphabetical order: MergeRowGroups derives a schema whose columns
// are sorted by name, and WriteRowGroup rejects a row group whose column order
// differs from the writer's with ErrRowGroupSchemaMismatch)
type verifRecJ struct {
	ID   int64  `parquet:"id"`
	Kind string `parquet:"kind,dict"`
	Name string `parquet:"name,plain"`
}

var verifSortByID = SortingColumns(Ascending("id"))

func verifFileOfJ(rows []verifRecJ, opts ...WriterOption) (*File, bool) {
	buf := new(bytes.Buffer)
	w := NewGenericWriter[verifRecJ](buf, opts...)
	if _, err := w.Write(rows); err != nil {
		return nil, false
	}
	if err := w.Close(); err != nil {
		return nil, false
	}
	f, err := OpenFile(bytes.NewReader(buf.Bytes()), int64(buf.Len()))
	return f, err == nil
}

func VerifH_C11_writeRowGroupEquivalence() {
	vUnwind(1 << 16)
	symName := vString("name", 1)
	a := []verifRecJ{{ID: 10, Name: "a", Kind: "x"}, {ID: 11, Name: symName, Kind: "yy"}}
	b := []verifRecJ{{ID: 20, Name: "b", Kind: "yy"}, {ID: 21, Name: "c", Kind: "x"}, {ID: 22, Name: "a", Kind: "zzz"}}
	sorted := SortingWriterConfig(verifSortByID)

	var src RowGroup
	var want []verifRecJ
	switch vChoose("source", 0, 4) {
	case 0: // in-memory buffer
		buf := NewGenericBuffer[verifRecJ]()
		if _, err := buf.Write(a); err != nil {
			vAssert(false, "buffer accepts rows")
			return
		}
		src, want = buf, a
	case 1: // file-backed row group
		f, ok := verifFileOfJ(a)
		if !ok {
			vAssert(false, "source file is written")
			return
		}
		src, want = f.RowGroups()[0], a
	case 2, 3: // merge of two disjoint sorted files (2) or of overlapping ones (3)
		x, y := a, b
		want = append(append([]verifRecJ{}, a...), b...)
		if vChoose("overlap", 0, 1) == 1 {
			x = []verifRecJ{a[0], b[0]}
			y = []verifRecJ{a[1], b[1], b[2]}
		}
		f1, ok1 := verifFileOfJ(x, sorted)
		f2, ok2 := verifFileOfJ(y, sorted)
		if !ok1 || !ok2 {
			vAssert(false, "source files are written")
			return
		}
		m, err := MergeRowGroups([]RowGroup{f1.RowGroups()[0], f2.RowGroups()[0]}, SortingRowGroupConfig(verifSortByID))
		if err != nil {
			vAssert(false, "row groups merge")
			return
		}
		src = m
	case 4: // a file written with v1 pages
		f, ok := verifFileOfJ(b, DataPageVersion(1))
		if !ok {
			vAssert(false, "source file is written")
			return
		}
		src, want = f.RowGroups()[0], b
	}

	var opts []WriterOption
	wantV1 := false
	maxRows := int64(0)
	switch vChoose("destination", 0, 3) {
	case 1:
		opts = append(opts, DataPageVersion(1))
		wantV1 = true
	case 2:
		maxRows = 2
		opts = append(opts, MaxRowsPerRowGroup(maxRows))
	case 3:
		opts = append(opts, sorted)
	}
	dst := new(bytes.Buffer)
	w := NewGenericWriter[verifRecJ](dst, opts...)
	var all []verifRecJ
	if vChoose("pendingRows", 0, 1) == 1 {
		pending := []verifRecJ{{ID: 1, Name: "p", Kind: "k"}, {ID: 2, Name: "q", Kind: "k"}}
		if _, err := w.Write(pending); err != nil {
			vAssert(false, "pending rows are accepted")
			return
		}
		all = append(all, pending...)
	}
	n, err := w.WriteRowGroup(src)
	if err != nil {
		vAssert(false, "row group is accepted")
		return
	}
	if maxRows == 0 {
		// (when MaxRowsPerRowGroup splits the rows the call reports the rows of the
		// last row group it wrote; the property is about the file, so that is only
		// noted in DESIGN.md)
		vAssert(n == int64(len(want)), "WriteRowGroup reports the rows of the row group")
	}
	all = append(all, want...)
	if err := w.Close(); err != nil {
		vAssert(false, "destination closes")
		return
	}
	data := dst.Bytes()
	cols, ok := specDecodeFile(data, int64(len(all)))
	if !ok {
		return
	}
	vAssert(len(cols) == 3 && len(cols[0].ints) == len(all) && len(cols[1].strs) == len(all) && len(cols[2].strs) == len(all), "destination holds every row once")
	if len(cols) != 3 || len(cols[0].ints) != len(all) || len(cols[1].strs) != len(all) || len(cols[2].strs) != len(all) {
		return
	}
	for i := range all {
		vAssert(cols[0].ints[i] == all[i].ID && vBytesEq(cols[1].strs[i], []byte(all[i].Kind)) && vBytesEq(cols[2].strs[i], []byte(all[i].Name)), "rows arrive in order, pending rows first")
	}
	if wantV1 {
		vAssert(cols[0].v2Pages == 0 && cols[1].v2Pages == 0 && cols[2].v2Pages == 0, "the destination's data page version is honoured")
	} else {
		vAssert(cols[0].v1Pages == 0 && cols[1].v1Pages == 0 && cols[2].v1Pages == 0, "the destination's data page version is honoured")
	}
	if maxRows > 0 {
		f, err := OpenFile(bytes.NewReader(data), int64(len(data)))
		if err != nil {
			vAssert(false, "destination opens")
			return
		}
		for _, rg := range f.RowGroups() {
			vAssert(rg.NumRows() <= maxRows, "no row group exceeds MaxRowsPerRowGroup")
		}
	}
	vCover("written")
}

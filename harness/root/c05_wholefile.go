//go:build verif

package parquet

import (
	"bytes"
	"io"
)

// C05.K0 / C06.K0 on whole files: a file of two row groups written by one
// writer (so that every per-column indexer and statistics accumulator is reused
// after a reset), one page per row; the column index, offset index and chunk
// statistics read back through the library are compared with the values really
// stored in each page: bounds bound, null counts and null pages are exact, a
// claimed boundary order is true, and Search finds for every stored value a
// page no later than the one that holds it.

type verifRecN struct {
	K int64  `parquet:"k"`
	S string `parquet:"s,plain"`
	O int32  `parquet:"o,optional"`
}

func VerifH_C05_wholeFileIndexes() {
	vUnwind(1 << 16)
	vAbstractCRCFixedWidth() // page checksums are not the subject
	groups := [][]verifRecN{
		{{K: int64(vI8("k0")), S: "m", O: 4}, {K: 5, S: vString("s1", 1), O: 0}},
		{{K: int64(vI8("k2")), S: "b", O: int32(vI8("o2"))}, {K: 7, S: "zz", O: 0}, {K: 9, S: vString("s4", 1), O: 2}},
	}
	buf := new(bytes.Buffer)
	w := NewGenericWriter[verifRecN](buf, PageBufferSize(1))
	for _, g := range groups {
		for i := range g {
			if _, err := w.Write(g[i : i+1]); err != nil {
				vAssert(false, "rows are accepted")
				return
			}
		}
		if err := w.Flush(); err != nil {
			vAssert(false, "row group is flushed")
			return
		}
	}
	if err := w.Close(); err != nil {
		vAssert(false, "file closes")
		return
	}
	f, err := OpenFile(bytes.NewReader(buf.Bytes()), int64(buf.Len()))
	if err != nil {
		vAssert(false, "file opens")
		return
	}
	rgs := f.RowGroups()
	vAssert(len(rgs) == len(groups), "one row group per flush")
	if len(rgs) != len(groups) {
		return
	}
	for g, rg := range rgs {
		for c, chunk := range rg.ColumnChunks() {
			ci, err := chunk.ColumnIndex()
			if err != nil || ci == nil {
				vAssert(false, "column index is readable")
				return
			}
			oi, err := chunk.OffsetIndex()
			if err != nil || oi == nil {
				vAssert(false, "offset index is readable")
				return
			}
			typ := chunk.Type()
			// walk the real pages
			pages := chunk.Pages()
			np := 0
			rowBase := int64(0)
			totalNulls := int64(0)
			var all []Value
			var pageOf []int
			for {
				p, err := pages.ReadPage()
				if err == io.EOF {
					break
				}
				if err != nil {
					vAssert(false, "pages are readable")
					return
				}
				vals := make([]Value, 8)
				n, _ := p.Values().ReadValues(vals)
				vAssert(np < ci.NumPages() && np < oi.NumPages(), "the indexes have an entry for every page")
				if np >= ci.NumPages() || np >= oi.NumPages() {
					return
				}
				vAssert(oi.FirstRowIndex(np) == rowBase, "first_row_index is the first row of the page")
				nulls := int64(0)
				for _, v := range vals[:n] {
					if v.IsNull() {
						nulls++
						continue
					}
					vAssert(typ.Compare(ci.MinValue(np), v) <= 0 && typ.Compare(v, ci.MaxValue(np)) <= 0, "page bounds contain every non-null value of the page")
					all = append(all, v.Clone())
					pageOf = append(pageOf, np)
				}
				vAssert(ci.NullCount(np) == nulls, "null count of the page is exact")
				vAssert(ci.NullPage(np) == (nulls == int64(n)), "null page flag is set exactly for pages holding nulls only")
				totalNulls += nulls
				rowBase += p.NumRows()
				np++
				Release(p)
			}
			pages.Close()
			vAssert(np == ci.NumPages() && np == oi.NumPages(), "the indexes have no entry without a page")
			vAssert(np == len(groups[g]), "one page per row of this row group")
			vAssert(chunk.NumValues() == rowBase, "chunk value count")
			if fc, ok := chunk.(*FileColumnChunk); ok {
				vAssert(fc.NullCount() == totalNulls, "chunk null count is exact")
				if min, max, ok := fc.Bounds(); ok {
					for _, v := range all {
						vAssert(typ.Compare(min, v) <= 0 && typ.Compare(v, max) <= 0, "chunk bounds contain every non-null value")
					}
				}
			}
			// boundary order claims over the non-null pages
			prev := -1
			for p := 0; p < np; p++ {
				if ci.NullPage(p) {
					continue
				}
				if prev >= 0 {
					if ci.IsAscending() {
						vAssert(typ.Compare(ci.MinValue(prev), ci.MinValue(p)) <= 0 && typ.Compare(ci.MaxValue(prev), ci.MaxValue(p)) <= 0, "a claimed ascending order holds")
					}
					if ci.IsDescending() {
						vAssert(typ.Compare(ci.MinValue(prev), ci.MinValue(p)) >= 0 && typ.Compare(ci.MaxValue(prev), ci.MaxValue(p)) >= 0, "a claimed descending order holds")
					}
				}
				prev = p
			}
			// C06: searching for a stored value never lands after the page that holds it
			for i, v := range all {
				r := Search(ci, v, typ)
				vAssert(r <= pageOf[i], "Search returns a page no later than the one holding the value")
				if r < np {
					vAssert(!ci.NullPage(r) && typ.Compare(ci.MinValue(r), v) <= 0 && typ.Compare(v, ci.MaxValue(r)) <= 0, "the page Search returns can contain the value")
				}
			}
			_ = c
		}
	}
	vCover("indexes")
}

//go:build verif

package parquet

import (
	"io"

	"github.com/parquet-go/parquet-go/deprecated"
)

// C01.K4: column buffer -> page -> value reader for every physical type: values
// written in two batches read back, in any read batch size, as the same values
// (booleans are bit-packed, byte arrays go through an offsets table, 16-byte
// fixed-len values through the be128 buffer).
func verifReadAllBatched(p Page, batch int) []Value {
	var out []Value
	r := p.Values()
	buf := make([]Value, batch)
	for i := 0; i < 64; i++ {
		n, err := r.ReadValues(buf)
		for _, v := range buf[:n] {
			out = append(out, v.Clone())
		}
		if err == io.EOF {
			return out
		}
		if err != nil {
			vAssert(false, "reading values succeeds")
			return out
		}
		if n == 0 {
			vAssert(false, "value reader makes progress")
			return out
		}
	}
	vAssert(false, "value reader terminates")
	return out
}

func VerifH_C01_columnBufferRoundTrip() {
	vUnwind(64)
	n := vChoose("n", 1, 3+vTier())
	split := vChoose("split", 0, n)
	batch := vChoose("readBatch", 1, 3)
	kind := vChoose("type", 0, 8)
	var typ Type
	vals := make([]Value, n)
	for i := range vals {
		switch kind {
		case 0:
			typ = BooleanType
			vals[i] = makeValueBoolean(vBool("b"))
		case 1:
			typ = Int32Type
			vals[i] = makeValueInt32(vI32("i32"))
		case 2:
			typ = Int64Type
			vals[i] = makeValueInt64(vI64("i64"))
		case 3:
			typ = Int96Type
			vals[i] = makeValueInt96(deprecated.Int96{vU32("w0"), vU32("w1"), vU32("w2")})
		case 4:
			typ = FloatType
			vals[i] = makeValueFloat(vF32("f32"))
		case 5:
			typ = DoubleType
			vals[i] = makeValueDouble(vF64("f64"))
		case 6:
			typ = ByteArrayType
			vals[i] = makeValueBytes(ByteArray, vBytes("ba", vChoose("len", 0, 2)))
		case 7:
			typ = FixedLenByteArrayType(3)
			vals[i] = makeValueBytes(FixedLenByteArray, vBytes("flba", 3))
		case 8:
			typ = FixedLenByteArrayType(16)
			b := make([]byte, 16)
			b[0], b[7], b[8], b[15] = vU8("x0"), vU8("x7"), vU8("x8"), vU8("x15")
			vals[i] = makeValueBytes(FixedLenByteArray, b)
		}
	}
	col := typ.NewColumnBuffer(0, 2)
	in := make([]Value, n)
	for i := range vals {
		in[i] = vals[i].Clone()
	}
	if k, err := col.WriteValues(in[:split]); err != nil || k != split {
		vAssert(false, "first batch is accepted")
		return
	}
	if k, err := col.WriteValues(in[split:]); err != nil || k != n-split {
		vAssert(false, "second batch is accepted")
		return
	}
	vAssert(col.Len() == n && col.NumValues() == int64(n), "buffer holds every value")
	out := verifReadAllBatched(col.Page(), batch)
	vAssert(len(out) == n, "page returns every value")
	for i := 0; i < n && i < len(out); i++ {
		vAssert(out[i].Kind() == vals[i].Kind(), "value kind is kept")
		switch kind {
		case 6, 7, 8:
			vAssert(vBytesEq(out[i].byteArray(), vals[i].byteArray()), "byte values read back byte-for-byte")
		case 3:
			vAssert(out[i].Int96() == vals[i].Int96(), "int96 values read back bit-identical")
		default:
			vAssert(out[i].u64 == vals[i].u64, "scalar values read back bit-identical")
		}
	}
	vCover("roundtrip")
}

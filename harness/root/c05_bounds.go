//go:build verif

package parquet

import (
	"bytes"
	"math"

	"github.com/parquet-go/parquet-go/encoding"
)

func verifBoundsN() int {
	return vChoose("n", 1, 4+2*vTier())
}

// C05.K1 integer page bounds through the real page types.
func VerifH_C05_boundsInt() {
	n := verifBoundsN()
	a := make([]int32, n)
	b := make([]int64, n)
	for i := 0; i < n; i++ {
		a[i], b[i] = vI32("a"), vI64("b")
	}
	p32 := newInt32Page(Int32Type, 0, int32(n), encoding.Int32Values(a))
	mn, mx, ok := p32.Bounds()
	vAssert(ok, "int32 bounds present")
	c := []bool{}
	hitMin, hitMax := []bool{}, []bool{}
	for i := 0; i < n; i++ {
		c = append(c, mn.Int32() <= a[i], a[i] <= mx.Int32())
		hitMin = append(hitMin, mn.Int32() == a[i])
		hitMax = append(hitMax, mx.Int32() == a[i])
	}
	vAssert(vAll(c...), "int32 min/max bound every value")
	vAssert(vAll(vAny(hitMin...), vAny(hitMax...)), "int32 min/max are attained")

	p64 := newInt64Page(Int64Type, 0, int32(n), encoding.Int64Values(b))
	mn, mx, ok = p64.Bounds()
	vAssert(ok, "int64 bounds present")
	c, hitMin, hitMax = c[:0], hitMin[:0], hitMax[:0]
	for i := 0; i < n; i++ {
		c = append(c, mn.Int64() <= b[i], b[i] <= mx.Int64())
		hitMin = append(hitMin, mn.Int64() == b[i])
		hitMax = append(hitMax, mx.Int64() == b[i])
	}
	vAssert(vAll(c...), "int64 min/max bound every value")
	vAssert(vAll(vAny(hitMin...), vAny(hitMax...)), "int64 min/max are attained")

	// unsigned order for unsigned logical types
	ua := make([]uint32, n)
	ub := make([]uint64, n)
	for i := 0; i < n; i++ {
		ua[i], ub[i] = uint32(a[i]), uint64(b[i])
	}
	pu32 := newUint32Page(Uint(32).Type(), 0, int32(n), encoding.Uint32Values(ua))
	mn, mx, ok = pu32.Bounds()
	vAssert(ok, "uint32 bounds present")
	c = c[:0]
	for i := 0; i < n; i++ {
		c = append(c, mn.Uint32() <= ua[i], ua[i] <= mx.Uint32())
	}
	vAssert(vAll(c...), "uint32 min/max bound every value in unsigned order")
	pu64 := newUint64Page(Uint(64).Type(), 0, int32(n), encoding.Uint64Values(ub))
	mn, mx, ok = pu64.Bounds()
	vAssert(ok, "uint64 bounds present")
	c = c[:0]
	for i := 0; i < n; i++ {
		c = append(c, mn.Uint64() <= ub[i], ub[i] <= mx.Uint64())
	}
	vAssert(vAll(c...), "uint64 min/max bound every value in unsigned order")
	vCover("bounds")
}

// C05.K1 float/double page bounds: NaN is ignored unless every value is NaN.
func VerifH_C05_boundsFloat() {
	vUnwind(16)
	n := vChoose("n", 1, 3+vTier())
	f := make([]float32, n)
	d := make([]float64, n)
	for i := 0; i < n; i++ {
		f[i], d[i] = vF32("f"), vF64("d")
	}
	pf := newFloatPage(FloatType, 0, int32(n), encoding.FloatValues(f))
	mn, mx, ok := pf.Bounds()
	vAssert(ok, "float bounds present")
	lo, hi := mn.Float(), mx.Float()
	c := []bool{}
	allNaN := []bool{}
	for i := 0; i < n; i++ {
		isNaN := f[i] != f[i]
		allNaN = append(allNaN, isNaN)
		c = append(c, vAny(isNaN, vAll(lo <= f[i], f[i] <= hi)))
	}
	vAssert(vAll(c...), "float min/max bound every non-NaN value")
	vAssert(vImplies(!vAll(allNaN...), vAll(lo == lo, hi == hi)), "float bounds are not NaN when a non-NaN value exists")
	vAssert(vImplies(vAll(allNaN...), vAll(lo != lo, hi != hi)), "all-NaN float page reports NaN bounds")

	pd := newDoublePage(DoubleType, 0, int32(n), encoding.DoubleValues(d))
	mn, mx, ok = pd.Bounds()
	vAssert(ok, "double bounds present")
	dlo, dhi := mn.Double(), mx.Double()
	c, allNaN = c[:0], allNaN[:0]
	for i := 0; i < n; i++ {
		isNaN := math.IsNaN(d[i])
		allNaN = append(allNaN, isNaN)
		c = append(c, vAny(isNaN, vAll(dlo <= d[i], d[i] <= dhi)))
	}
	vAssert(vAll(c...), "double min/max bound every non-NaN value")
	vAssert(vImplies(!vAll(allNaN...), vAll(dlo == dlo, dhi == dhi)), "double bounds are not NaN when a non-NaN value exists")
	vCover("bounds")
}

// C05.K1 byte-array orders: BE128 (16-byte), fixed-len and variable byte arrays.
func VerifH_C05_boundsBE128() {
	vUnwind(24)
	n := vChoose("n", 1, 3+vTier())
	// 16-byte values: only bytes 7, 8 and 15 are symbolic (the rest equal) so that
	// ties on the high word are frequent
	data := make([]byte, 16*n)
	vals := make([][]byte, n)
	for i := 0; i < n; i++ {
		data[16*i+7] = vU8("hi")
		data[16*i+8] = vU8("lo8")
		data[16*i+15] = vU8("lo")
		vals[i] = append([]byte(nil), data[16*i:16*i+16]...)
	}
	pb := newBE128Page(FixedLenByteArrayType(16), 0, int32(n), encoding.FixedLenByteArrayValues(data, 16))
	mn, mx, ok := pb.Bounds()
	vAssert(ok, "be128 bounds present")
	c := []bool{}
	for i := 0; i < n; i++ {
		c = append(c, bytes.Compare(mn.ByteArray(), vals[i]) <= 0, bytes.Compare(vals[i], mx.ByteArray()) <= 0)
	}
	vAssert(vAll(c...), "be128 min/max bound every value")
	vAssert(vAll(bytes.Compare(pb.min(), mn.ByteArray()) == 0, bytes.Compare(pb.max(), mx.ByteArray()) == 0), "be128 min()/max() agree with Bounds()")
	vCover("bounds")
}

func VerifH_C05_boundsBytes() {
	vUnwind(24)
	n := vChoose("n", 1, 2+vTier())
	c := []bool{}
	// fixed-len byte arrays of size 2
	fd := vBytes("flba", 2*n)
	fv := make([][]byte, n)
	for i := 0; i < n; i++ {
		fv[i] = append([]byte(nil), fd[2*i:2*i+2]...)
	}
	pfx := newFixedLenByteArrayPage(FixedLenByteArrayType(2), 0, int32(n), encoding.FixedLenByteArrayValues(fd, 2))
	mn, mx, ok := pfx.Bounds()
	vAssert(ok, "flba bounds present")
	c = c[:0]
	for i := 0; i < n; i++ {
		c = append(c, bytes.Compare(mn.ByteArray(), fv[i]) <= 0, bytes.Compare(fv[i], mx.ByteArray()) <= 0)
	}
	vAssert(vAll(c...), "flba min/max bound every value")

	// variable-length byte arrays of lengths 0..2
	var bd []byte
	offs := []uint32{0}
	bv := make([][]byte, n)
	for i := 0; i < n; i++ {
		l := vChoose("len", 0, 2)
		bv[i] = vBytes("ba", l)
		bd = append(bd, bv[i]...)
		offs = append(offs, uint32(len(bd)))
	}
	pba := newByteArrayPage(ByteArrayType, 0, int32(n), encoding.ByteArrayValues(bd, offs))
	mn, mx, ok = pba.Bounds()
	vAssert(ok, "byte array bounds present")
	c = c[:0]
	for i := 0; i < n; i++ {
		c = append(c, bytes.Compare(mn.ByteArray(), bv[i]) <= 0, bytes.Compare(bv[i], mx.ByteArray()) <= 0)
	}
	vAssert(vAll(c...), "byte array min/max bound every value")
	vCover("bounds")
}

// C05.K3 the column indexer stores what it was given and claims an order only if true.
func VerifH_C05_indexerInt32() {
	vUnwind(16)
	P := vChoose("pages", 1, 3+vTier())
	nullMask := vChoose("nullmask", 0, 1<<P-1)
	ix := newInt32ColumnIndexer()
	mins := make([]int32, P)
	maxs := make([]int32, P)
	nulls := make([]int64, P)
	for i := 0; i < P; i++ {
		if nullMask>>i&1 == 1 {
			nulls[i] = 5
			ix.IndexPage(5, 5, Value{}, Value{})
			continue
		}
		mins[i], maxs[i] = vI32("min"), vI32("max")
		vAssume(mins[i] <= maxs[i])
		nulls[i] = int64(vChoose("nulls", 0, 2))
		ix.IndexPage(5, nulls[i], makeValueInt32(mins[i]), makeValueInt32(maxs[i]))
	}
	fci := ix.ColumnIndex()
	ci := NewColumnIndex(Int32, &fci)
	vAssert(ci.NumPages() == P, "page count")
	c := []bool{}
	for i := 0; i < P; i++ {
		c = append(c, ci.NullPage(i) == (nullMask>>i&1 == 1), ci.NullCount(i) == nulls[i])
		if nullMask>>i&1 == 0 {
			c = append(c, ci.MinValue(i).Int32() == mins[i], ci.MaxValue(i).Int32() == maxs[i])
		}
	}
	vAssert(vAll(c...), "index entries equal the page statistics")
	// a claimed order is true of the non-null pages
	asc, desc := []bool{}, []bool{}
	prev := -1
	for i := 0; i < P; i++ {
		if nullMask>>i&1 == 1 {
			continue
		}
		if prev >= 0 {
			asc = append(asc, mins[prev] <= mins[i], maxs[prev] <= maxs[i])
			desc = append(desc, mins[prev] >= mins[i], maxs[prev] >= maxs[i])
		}
		prev = i
	}
	vAssert(vImplies(ci.IsAscending(), vAll(asc...)), "claimed ascending order holds on non-null pages")
	vAssert(vImplies(ci.IsDescending(), vAll(desc...)), "claimed descending order holds on non-null pages")
	vCover("indexed")
}

//go:build verif

package parquet

import (
	"bytes"
	"io"
)

// C01.K0: the whole write->read path on a small file: GenericWriter (schema
// from the Go type, typed shredding, page encoding, Thrift page headers, page
// index and footer) into a byte buffer, then OpenFile/GenericReader on those
// bytes. Structure (row count, list lengths, null pattern) is chosen
// concretely per path; the values are symbolic.

type verifRecF struct {
	ID   int64   `parquet:"id"`
	Opt  int32   `parquet:"opt,optional"`
	Name string  `parquet:"name"`
	Tags []int32 `parquet:"tags"`
}

// verifSymF builds a row whose column `sym` is symbolic and whose other
// columns are concrete. Every page carries a CRC-32 of its bytes in a
// variable-length header field, so each symbolic column multiplies the number
// of header layouts by five; one symbolic column per path keeps that linear.
func verifSymF(sym, i int) verifRecF {
	v := verifRecF{ID: int64(1000 + i), Opt: int32(7 * i), Name: "r", Tags: []int32{int32(i), 5}}
	switch sym {
	case 0:
		v.ID = vI64("id")
	case 1:
		v.Opt = vI32("opt")
	case 2:
		v.Name = vString("name", vChoose("nameLen", 0, 2))
	case 3:
		v.Tags = nil
		for k, n := 0, vChoose("tags", 0, 2); k < n; k++ {
			v.Tags = append(v.Tags, vI32("tag"))
		}
	}
	return v
}

func VerifH_C01_wholeFileRoundTrip() {
	vUnwind(4096)
	n := vChoose("rows", 1, 2+vTier())
	sym := vChoose("symbolicColumn", 0, 3)
	in := make([]verifRecF, n)
	for i := range in {
		in[i] = verifSymF(sym, i)
	}
	buf := new(bytes.Buffer)
	w := NewGenericWriter[verifRecF](buf)
	if k, err := w.Write(in); err != nil || k != n {
		vAssert(false, "rows are accepted")
		return
	}
	if err := w.Close(); err != nil {
		vAssert(false, "file closes")
		return
	}
	data := buf.Bytes()
	f, err := OpenFile(bytes.NewReader(data), int64(len(data)))
	if err != nil {
		vAssert(false, "written file opens")
		return
	}
	vAssert(f.NumRows() == int64(n), "row count in the footer")
	r := NewGenericReader[verifRecF](f)
	out := make([]verifRecF, n+1)
	k, err := r.Read(out)
	vAssert(k == n, "every row is read back")
	vAssert(err == nil || err == io.EOF, "no read error")
	for i := 0; i < n && i < k; i++ {
		a, b := &in[i], &out[i]
		vAssert(a.ID == b.ID && a.Opt == b.Opt && a.Name == b.Name, "scalar fields round-trip")
		vAssert(len(a.Tags) == len(b.Tags), "list length round-trips")
		for j := range a.Tags {
			if j < len(b.Tags) {
				vAssert(a.Tags[j] == b.Tags[j], "list elements round-trip")
			}
		}
	}
	r.Close()
	vCover("wholefile")
}

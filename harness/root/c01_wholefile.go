//go:build verif

package parquet

import (
	"bytes"
	"io"
	"math"
)

// C01.K0: the whole write->read path on a small file: GenericWriter (schema
// from the Go type, typed shredding, page encoding, Thrift page headers, page
// index and footer) into a byte buffer, then OpenFile/GenericReader on those
// bytes. Structure (row count, list lengths, null pattern) is chosen
// concretely per path; the values are symbolic.

type verifRecF struct {
	ID   int64   `parquet:"id"`
	Opt  int32   `parquet:"opt,optional"`
	Name string  `parquet:"name"`
	Tags []int32 `parquet:"tags"`
}

// verifSymF builds a row whose column `sym` is symbolic and whose other
// columns are concrete. Every page carries a CRC-32 of its bytes in a
// variable-length header field, so each symbolic column multiplies the number
// of header layouts by five; one symbolic column per path keeps that linear.
func verifSymF(sym, i int) verifRecF {
	v := verifRecF{ID: int64(1000 + i), Opt: int32(7 * i), Name: "r", Tags: []int32{int32(i), 5}}
	switch sym {
	case 0:
		v.ID = vI64("id")
	case 1:
		v.Opt = vI32("opt")
	case 2:
		v.Name = vString("name", vChoose("nameLen", 0, 2))
	case 3:
		v.Tags = nil
		for k, n := 0, vChoose("tags", 0, 2); k < n; k++ {
			v.Tags = append(v.Tags, vI32("tag"))
		}
	}
	return v
}

func VerifH_C01_wholeFileRoundTrip() {
	vUnwind(4096)
	n := vChoose("rows", 1, 2+vTier())
	sym := vChoose("symbolicColumn", 0, 3)
	in := make([]verifRecF, n)
	for i := range in {
		in[i] = verifSymF(sym, i)
	}
	buf := new(bytes.Buffer)
	w := NewGenericWriter[verifRecF](buf)
	if k, err := w.Write(in); err != nil || k != n {
		vAssert(false, "rows are accepted")
		return
	}
	if err := w.Close(); err != nil {
		vAssert(false, "file closes")
		return
	}
	data := buf.Bytes()
	f, err := OpenFile(bytes.NewReader(data), int64(len(data)))
	if err != nil {
		vAssert(false, "written file opens")
		return
	}
	vAssert(f.NumRows() == int64(n), "row count in the footer")
	r := NewGenericReader[verifRecF](f)
	out := make([]verifRecF, n+1)
	k, err := r.Read(out)
	vAssert(k == n, "every row is read back")
	vAssert(err == nil || err == io.EOF, "no read error")
	for i := 0; i < n && i < k; i++ {
		a, b := &in[i], &out[i]
		vAssert(a.ID == b.ID && a.Opt == b.Opt && a.Name == b.Name, "scalar fields round-trip")
		vAssert(len(a.Tags) == len(b.Tags), "list length round-trips")
		for j := range a.Tags {
			if j < len(b.Tags) {
				vAssert(a.Tags[j] == b.Tags[j], "list elements round-trip")
			}
		}
	}
	r.Close()
	vCover("wholefile")
}

// C01.K0b: every physical type and the common logical annotations through the
// whole write->read path at once, all columns symbolic (page checksums
// abstracted, page bounds switched off so that min/max comparisons do not fork
// on every column). Floats are compared by bit pattern (NaN payloads and -0
// included).
type verifInnerT struct {
	P int32  `parquet:"p"`
	Q string `parquet:"q,optional"`
}

type verifRecT struct {
	B    bool             `parquet:"b"`
	I32  int32            `parquet:"i32"`
	U32  uint32           `parquet:"u32"`
	I64  int64            `parquet:"i64,delta"`
	F32  float32          `parquet:"f32"`
	F64  float64          `parquet:"f64,split"`
	S    string           `parquet:"s,dict"`
	Blob []byte           `parquet:"blob,plain"`
	UUID [16]byte         `parquet:"uuid,uuid"`
	Opt  *int64           `parquet:"opt,optional"`
	In   *verifInnerT     `parquet:"in,optional"`
	L    []verifInnerT    `parquet:"l"`
	M    map[string]int32 `parquet:"m"`
}

func verifSymInner(tag string) verifInnerT {
	v := verifInnerT{P: int32(vI8(tag + ".p"))}
	if vChoose(tag+".q", 0, 1) == 1 {
		v.Q = "q" + vString(tag+".qs", 1)
	}
	return v
}

func verifSameInner(a, b *verifInnerT) bool { return vAll(a.P == b.P, a.Q == b.Q) }

// verifPickT: a structural choice at the thorough tier, a fixed value at the quick tier
func verifPickT(tag string, hi, quick int) int {
	if vTier() == 0 {
		return quick
	}
	return vChoose(tag, 0, hi)
}

func VerifH_C01_wholeFileAllTypes() {
	vUnwind(1 << 16)
	vAbstractCRCFixedWidth()
	var v verifRecT
	v.B = vBool("b")
	v.I32 = vI32("i32")
	v.U32 = vU32("u32")
	v.I64 = 1234567 // DELTA_BINARY_PACKED column: concrete here (the width of a symbolic delta forks 33 ways; decided under C04)
	v.F32 = vF32("f32")
	v.F64 = vF64("f64")
	v.S = "s" + vString("s", 1)
	v.Blob = vBytes("blob", 2)
	v.UUID[0], v.UUID[15] = vU8("u0"), vU8("u15")
	if verifPickT("opt", 1, 1) == 1 {
		x := vI64("optv")
		v.Opt = &x
	}
	if verifPickT("in", 1, 1) == 1 {
		in := verifSymInner("in")
		v.In = &in
	}
	for i, n := 0, verifPickT("list", 2, 1); i < n; i++ {
		v.L = append(v.L, verifSymInner("l"))
	}
	if verifPickT("map", 1, 1) == 1 {
		v.M = map[string]int32{"k": vI32("mk")}
	}
	second := verifRecT{I32: 7, S: "t", UUID: [16]byte{1}, L: []verifInnerT{{P: 1}}}
	opts := []WriterOption{SkipPageBounds("b"), SkipPageBounds("i32"), SkipPageBounds("u32"), SkipPageBounds("i64"), SkipPageBounds("f32"), SkipPageBounds("f64"), SkipPageBounds("s"), SkipPageBounds("blob"), SkipPageBounds("uuid"), SkipPageBounds("opt"), SkipPageBounds("in", "p"), SkipPageBounds("in", "q"), SkipPageBounds("l", "p"), SkipPageBounds("l", "q"), SkipPageBounds("m", "key_value", "key"), SkipPageBounds("m", "key_value", "value")}
	if vChoose("v1", 0, 1) == 1 {
		opts = append(opts, DataPageVersion(1))
	}
	buf := new(bytes.Buffer)
	w := NewGenericWriter[verifRecT](buf, opts...)
	if _, err := w.Write([]verifRecT{v, second}); err != nil {
		vAssert(false, "rows are accepted")
		return
	}
	if err := w.Close(); err != nil {
		vAssert(false, "file closes")
		return
	}
	got, err := Read[verifRecT](bytes.NewReader(buf.Bytes()), int64(buf.Len()))
	vAssert(err == nil && len(got) == 2, "both rows are read back")
	if len(got) != 2 {
		return
	}
	g := &got[0]
	vAssert(g.B == v.B && g.I32 == v.I32 && g.U32 == v.U32 && g.I64 == v.I64, "boolean and integer columns round-trip")
	vAssert(math.Float32bits(g.F32) == math.Float32bits(v.F32) && math.Float64bits(g.F64) == math.Float64bits(v.F64), "float columns round-trip bit for bit")
	vAssert(g.S == v.S && vBytesEq(g.Blob, v.Blob) && g.UUID == v.UUID, "string, byte array and uuid columns round-trip")
	vAssert((g.Opt == nil) == (v.Opt == nil), "optional pointer keeps its nil-ness")
	if g.Opt != nil && v.Opt != nil {
		vAssert(*g.Opt == *v.Opt, "optional pointer keeps its value")
	}
	vAssert((g.In == nil) == (v.In == nil), "optional group keeps its nil-ness")
	if g.In != nil && v.In != nil {
		vAssert(verifSameInner(g.In, v.In), "optional group keeps its fields")
	}
	vAssert(len(g.L) == len(v.L), "list of groups keeps its length")
	for i := range v.L {
		if i < len(g.L) {
			vAssert(verifSameInner(&g.L[i], &v.L[i]), "list of groups keeps its elements")
		}
	}
	vAssert(len(g.M) == len(v.M), "map keeps its size")
	if len(v.M) == 1 {
		x, ok := g.M["k"]
		vAssert(ok && x == v.M["k"], "map keeps its entry")
	}
	vAssert(got[1].I32 == 7 && got[1].S == "t" && len(got[1].L) == 1 && got[1].L[0].P == 1, "the concrete second row round-trips")
	vCover("all types")
}

//go:build verif

package rle

// C04: RLE / bit-packed hybrid. Real encoder -> (a) real decoder, (b) a decoder
// written from parquet-format/Encodings.md (specHybridDecode below, which shares
// no code with the library). dst buffers start with symbolic garbage.

// specHybridDecode decodes <bit-packed-run> | <rle-run> sequences.
// Like every reader of the format it is told how many values the page holds and
// stops once it has them.
func specHybridDecode(src []byte, bitWidth uint, need int) (out []uint32, ok bool) {
	i := 0
	for len(out) < need {
		// ULEB128 header
		var h uint64
		var shift uint
		for {
			if i >= len(src) || shift > 63 {
				return out, false
			}
			b := src[i]
			i++
			h |= uint64(b&0x7f) << shift
			shift += 7
			if b&0x80 == 0 {
				break
			}
		}
		if h&1 == 1 {
			groups := int(h >> 1)
			nbytes := groups * int(bitWidth)
			if i+nbytes > len(src) {
				return out, false
			}
			for v := 0; v < groups*8; v++ {
				var x uint32
				for b := 0; b < int(bitWidth); b++ {
					bit := v*int(bitWidth) + b
					x |= uint32(src[i+bit/8]>>(uint(bit)%8)&1) << uint(b)
				}
				out = append(out, x)
			}
			i += nbytes
		} else {
			count := int(h >> 1)
			nb := (int(bitWidth) + 7) / 8
			if i+nb > len(src) {
				return out, false
			}
			var x uint32
			for b := 0; b < nb; b++ {
				x |= uint32(src[i+b]) << (8 * uint(b))
			}
			if bitWidth < 32 {
				x &= 1<<bitWidth - 1
			}
			i += nb
			for k := 0; k < count; k++ {
				out = append(out, x)
			}
		}
	}
	return out, true
}

func verifLevelLen() int {
	if vTier() > 0 {
		return vChoose("n", 0, 25)
	}
	// 0..10, then the 8-value group boundaries 15,16,17
	k := vChoose("n", 0, 13)
	if k <= 10 {
		return k
	}
	return 15 + (k - 11)
}

func VerifH_C04_rleLevels() {
	vUnwind(40)
	bw := uint(vChoose("bitWidth", 1, 8))
	if vTier() == 0 {
		// quick: the widths around the byte boundary and the common level widths
		vAssume(bw == 1 || bw == 2 || bw == 3 || bw == 7 || bw == 8)
	}
	n := verifLevelLen()
	src := vBytes("v", n)
	for i := range src {
		vAssume(uint(src[i])>>bw == 0)
	}
	orig := append([]byte(nil), src...)
	garbage := vBytes("dirty", 3)
	e := &Encoding{BitWidth: int(bw)}
	enc, err := e.EncodeLevels(garbage, src)
	vAssert(err == nil, "encode succeeds")
	vAssert(vBytesEq(src, orig), "encoder does not modify its input")
	dec, err := e.DecodeLevels(vBytes("dirty2", 2), enc)
	vAssert(err == nil, "decode succeeds")
	vAssert(len(dec) == n, "decoded length")
	vAssert(vBytesEq(dec, orig), "real decoder returns the input")
	spec, ok := specHybridDecode(enc, bw, n)
	vAssert(ok, "spec decoder accepts the bytes")
	vAssert(len(spec) >= n, "spec decoder yields at least n values")
	conds := make([]bool, 0, n)
	for i := 0; i < n && i < len(spec); i++ {
		conds = append(conds, spec[i] == uint32(orig[i]))
	}
	vAssert(vAll(conds...), "spec decoder returns the input")
	vCover("roundtrip")
}

func VerifH_C04_rleBoolean() {
	vUnwind(40)
	nb := vChoose("bytes", 0, 4+2*vTier())
	src := vBytes("bits", nb)
	orig := append([]byte(nil), src...)
	e := &Encoding{BitWidth: 1}
	enc, err := e.EncodeBoolean(vBytes("dirty", 2), src)
	vAssert(err == nil, "encode succeeds")
	vAssert(len(enc) >= 4, "length prefix present")
	plen := int(enc[0]) | int(enc[1])<<8 | int(enc[2])<<16 | int(enc[3])<<24
	vAssert(plen == len(enc)-4, "length prefix equals payload length")
	dec, err := e.DecodeBoolean(vBytes("dirty2", 1), enc)
	vAssert(err == nil, "decode succeeds")
	vAssert(vBytesEq(dec, orig), "real decoder returns the input bits")
	spec, ok := specHybridDecode(enc[4:], 1, 8*nb)
	vAssert(ok, "spec decoder accepts the bytes")
	vAssert(len(spec) >= 8*nb, "spec decoder yields all values")
	conds := make([]bool, 0, 8*nb)
	for i := 0; i < 8*nb && i < len(spec); i++ {
		conds = append(conds, spec[i] == uint32(orig[i/8]>>(uint(i)%8)&1))
	}
	vAssert(vAll(conds...), "spec decoder returns the input bits")
	vCover("roundtrip")
}

func VerifH_C04_rleInt32() {
	vUnwind(40)
	var bw uint
	if vTier() > 0 {
		bw = uint(vChoose("bitWidth", 1, 32))
	} else {
		bw = []uint{1, 2, 7, 8, 9, 31, 32}[vChoose("bitWidthIdx", 0, 6)]
	}
	k := vChoose("n", 0, 11)
	n := k
	if k >= 10 {
		n = 16 + (k - 10)
	}
	src := make([]int32, n)
	for i := range src {
		src[i] = vI32("v")
		if bw < 32 {
			vAssume(uint32(src[i])>>bw == 0)
		}
	}
	orig := append([]int32(nil), src...)
	e := &Encoding{BitWidth: int(bw)}
	enc, err := e.EncodeInt32(vBytes("dirty", 3), src)
	vAssert(err == nil, "encode succeeds")
	dec, err := e.DecodeInt32(make([]int32, 0, 1), enc)
	vAssert(err == nil, "decode succeeds")
	vAssert(len(dec) >= n, "decoded length")
	conds := make([]bool, 0, 2*n)
	for i := 0; i < n && i < len(dec); i++ {
		conds = append(conds, dec[i] == orig[i])
	}
	vAssert(vAll(conds...), "real decoder returns the input")
	spec, ok := specHybridDecode(enc, bw, n)
	vAssert(ok, "spec decoder accepts the bytes")
	vAssert(len(spec) >= n, "spec decoder yields at least n values")
	conds = conds[:0]
	for i := 0; i < n && i < len(spec); i++ {
		conds = append(conds, spec[i] == uint32(orig[i]))
	}
	vAssert(vAll(conds...), "spec decoder returns the input")
	vCover("roundtrip")
}

//go:build verif

package bytestreamsplit

import "math"

// C04 BYTE_STREAM_SPLIT: byte k of value i is stored at stream k, position i.
func VerifH_C04_bssFloatDouble() {
	n := vChoose("n", 0, 4+4*vTier())
	f := make([]float32, n)
	d := make([]float64, n)
	for i := 0; i < n; i++ {
		f[i], d[i] = vF32("f"), vF64("d")
	}
	e := &Encoding{}
	enc, err := e.EncodeFloat(vBytes("dirty", 5), f)
	vAssert(err == nil && len(enc) == 4*n, "float encoded size")
	c := []bool{}
	for i := 0; i < n && len(enc) == 4*n; i++ {
		u := math.Float32bits(f[i])
		for k := 0; k < 4; k++ {
			c = append(c, enc[k*n+i] == byte(u>>(8*uint(k))))
		}
	}
	vAssert(vAll(c...), "float spec layout")
	df, err := e.DecodeFloat(make([]float32, 1, 2), enc)
	vAssert(err == nil && len(df) == n, "float decode")
	c = c[:0]
	for i := 0; i < n && i < len(df); i++ {
		c = append(c, math.Float32bits(df[i]) == math.Float32bits(f[i]))
	}
	vAssert(vAll(c...), "float round trip")

	enc, err = e.EncodeDouble(vBytes("dirty", 5), d)
	vAssert(err == nil && len(enc) == 8*n, "double encoded size")
	c = c[:0]
	for i := 0; i < n && len(enc) == 8*n; i++ {
		u := math.Float64bits(d[i])
		for k := 0; k < 8; k++ {
			c = append(c, enc[k*n+i] == byte(u>>(8*uint(k))))
		}
	}
	vAssert(vAll(c...), "double spec layout")
	dd, err := e.DecodeDouble(nil, enc)
	vAssert(err == nil && len(dd) == n, "double decode")
	c = c[:0]
	for i := 0; i < n && i < len(dd); i++ {
		c = append(c, math.Float64bits(dd[i]) == math.Float64bits(d[i]))
	}
	vAssert(vAll(c...), "double round trip")
	vCover("roundtrip")
}

func VerifH_C04_bssIntFixed() {
	n := vChoose("n", 0, 4+3*vTier())
	a := make([]int32, n)
	b := make([]int64, n)
	for i := 0; i < n; i++ {
		a[i], b[i] = vI32("a"), vI64("b")
	}
	e := &Encoding{}
	enc, err := e.EncodeInt32(vBytes("dirty", 3), a)
	vAssert(err == nil && len(enc) == 4*n, "int32 encoded size")
	c := []bool{}
	for i := 0; i < n && len(enc) == 4*n; i++ {
		for k := 0; k < 4; k++ {
			c = append(c, enc[k*n+i] == byte(uint32(a[i])>>(8*uint(k))))
		}
	}
	vAssert(vAll(c...), "int32 spec layout")
	da, err := e.DecodeInt32(nil, enc)
	vAssert(err == nil && len(da) == n, "int32 decode")
	c = c[:0]
	for i := 0; i < n && i < len(da); i++ {
		c = append(c, da[i] == a[i])
	}
	vAssert(vAll(c...), "int32 round trip")
	enc, err = e.EncodeInt64(vBytes("dirty", 3), b)
	vAssert(err == nil && len(enc) == 8*n, "int64 encoded size")
	c = c[:0]
	for i := 0; i < n && len(enc) == 8*n; i++ {
		for k := 0; k < 8; k++ {
			c = append(c, enc[k*n+i] == byte(uint64(b[i])>>(8*uint(k))))
		}
	}
	vAssert(vAll(c...), "int64 spec layout")
	db, err := e.DecodeInt64(make([]int64, 0, 1), enc)
	vAssert(err == nil && len(db) == n, "int64 decode")
	c = c[:0]
	for i := 0; i < n && i < len(db); i++ {
		c = append(c, db[i] == b[i])
	}
	vAssert(vAll(c...), "int64 round trip")

	size := vChoose("size", 1, 5)
	m := vChoose("m", 0, 3)
	src := vBytes("flba", size*m)
	orig := append([]byte(nil), src...)
	enc, err = e.EncodeFixedLenByteArray(vBytes("dirty", 4), src, size)
	vAssert(err == nil && len(enc) == size*m, "flba encoded size")
	c = c[:0]
	for i := 0; i < m && len(enc) == size*m; i++ {
		for k := 0; k < size; k++ {
			c = append(c, enc[k*m+i] == orig[i*size+k])
		}
	}
	vAssert(vAll(c...), "flba spec layout")
	dec, err := e.DecodeFixedLenByteArray(vBytes("dirty2", 2), enc, size)
	vAssert(err == nil, "flba decode")
	vAssert(vBytesEq(dec, orig), "flba round trip")
	vCover("roundtrip")
}

//go:build verif

package bitpacked

// C04 BIT_PACKED (deprecated level encoding): values packed MSB-first.
func VerifH_C04_bitpackedLevels() {
	vUnwind(32)
	bw := uint(vChoose("bitWidth", 1, 8))
	n := vChoose("n", 1, 9)
	src := vBytes("v", n)
	for i := range src {
		vAssume(uint(src[i])>>bw == 0)
	}
	orig := append([]byte(nil), src...)
	e := &Encoding{BitWidth: int(bw)}
	enc, err := e.EncodeLevels(vBytes("dirty", 4), src)
	vAssert(err == nil, "encode succeeds")
	vAssert(len(enc) == (int(bw)*n+7)/8, "encoded size")
	// spec decoder: bit k of value i is stream bit i*bw+(bw-1-k), MSB first
	conds := make([]bool, 0, n)
	for i := 0; i < n; i++ {
		var x byte
		for b := 0; b < int(bw); b++ {
			bit := i*int(bw) + b
			if bit/8 < len(enc) {
				x = x<<1 | (enc[bit/8]>>(7-uint(bit)%8))&1
			}
		}
		conds = append(conds, x == orig[i])
	}
	vAssert(vAll(conds...), "spec decoder returns the input")
	dec, err := e.DecodeLevels(vBytes("dirty2", 3), enc)
	vAssert(err == nil, "decode succeeds")
	vAssert(len(dec) >= n, "decoded count")
	if len(dec) >= n {
		vAssert(vBytesEq(dec[:n], orig), "real decoder returns the input")
	}
	vCover("roundtrip")
}

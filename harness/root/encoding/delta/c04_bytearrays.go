//go:build verif

package delta

// C04 DELTA_BYTE_ARRAY and DELTA_LENGTH_BYTE_ARRAY with symbolic string bytes:
// real encoder -> real decoder, and a decoder written from Encodings.md.

func specDeltaDecodeAt(src []byte) (out []int64, pos int, ok bool) {
	r := &specReader{b: src, ok: true}
	blockSize := int(r.uvarint())
	miniBlocks := int(r.uvarint())
	total := int(r.uvarint())
	first := r.zigzag()
	if !r.ok || miniBlocks == 0 || blockSize == 0 || total > 1024 {
		return nil, 0, false
	}
	if total == 0 {
		return nil, r.pos, true
	}
	perMini := blockSize / miniBlocks
	out = append(out, first)
	last := first
	for len(out) < total {
		minDelta := r.zigzag()
		if !r.ok || r.pos+miniBlocks > len(r.b) {
			return out, 0, false
		}
		widths := r.b[r.pos : r.pos+miniBlocks]
		r.pos += miniBlocks
		for m := 0; m < miniBlocks && len(out) < total; m++ {
			w := int(widths[m])
			nbytes := perMini * w / 8
			if r.pos+nbytes > len(r.b) {
				return out, 0, false
			}
			for v := 0; v < perMini && len(out) < total; v++ {
				var d uint64
				for b := 0; b < w; b++ {
					bit := v*w + b
					d |= uint64(r.b[r.pos+bit/8]>>(uint(bit)%8)&1) << uint(b)
				}
				x := int64(int32(last + minDelta + int64(d)))
				out = append(out, x)
				last = x
			}
			r.pos += nbytes
		}
	}
	return out, r.pos, true
}

func verifStrings() (data []byte, offsets []uint32, vals [][]byte) {
	n := vChoose("count", 0, 3)
	offsets = []uint32{0}
	for i := 0; i < n; i++ {
		l := vChoose("len", 0, 2+vTier())
		v := vBytes("s", l)
		vals = append(vals, v)
		data = append(data, v...)
		offsets = append(offsets, uint32(len(data)))
	}
	return
}

func VerifH_C04_deltaByteArray() {
	vUnwind(200)
	data, offsets, vals := verifStrings()
	orig := append([]byte(nil), data...)
	e := &ByteArrayEncoding{}
	enc, err := e.EncodeByteArray(vBytes("dirty", 3), data, offsets)
	vAssert(err == nil, "encode succeeds")
	vAssert(vBytesEq(data, orig), "encoder does not modify its input")
	dec, offs, err := e.DecodeByteArray(vBytes("dirty2", 2), enc, make([]uint32, 0, 1))
	vAssert(err == nil, "decode succeeds")
	vAssert(len(offs) == len(offsets) || (len(vals) == 0 && len(offs) <= 1), "decoded value count")
	vAssert(vBytesEq(dec, orig), "real decoder returns the input bytes")
	for i := 0; i < len(offs) && i < len(offsets); i++ {
		vAssert(offs[i] == offsets[i], "real decoder returns the input offsets")
	}
	// spec: prefix lengths, suffix lengths (both DELTA_BINARY_PACKED), then the suffixes
	prefixes, p1, ok := specDeltaDecodeAt(enc)
	vAssert(ok, "spec: prefix lengths decode")
	suffixes, p2, ok2 := specDeltaDecodeAt(enc[p1:])
	vAssert(ok2, "spec: suffix lengths decode")
	vAssert(len(prefixes) == len(vals) && len(suffixes) == len(vals), "spec: one prefix and one suffix length per value")
	if !ok || !ok2 || len(prefixes) != len(vals) || len(suffixes) != len(vals) {
		return
	}
	pos := p1 + p2
	var prev []byte
	for i := range vals {
		pl, sl := int(prefixes[i]), int(suffixes[i])
		vAssert(pl >= 0 && pl <= len(prev) && sl >= 0 && pos+sl <= len(enc), "spec: lengths are consistent")
		if pl < 0 || pl > len(prev) || sl < 0 || pos+sl > len(enc) {
			return
		}
		v := append(append([]byte(nil), prev[:pl]...), enc[pos:pos+sl]...)
		pos += sl
		vAssert(vBytesEq(v, vals[i]), "spec decoder returns the input value")
		prev = v
	}
	vAssert(pos == len(enc), "spec: no trailing bytes")
	vCover("roundtrip")
}

func VerifH_C04_deltaLengthByteArray() {
	vUnwind(200)
	data, offsets, vals := verifStrings()
	orig := append([]byte(nil), data...)
	e := &LengthByteArrayEncoding{}
	enc, err := e.EncodeByteArray(vBytes("dirty", 3), data, offsets)
	vAssert(err == nil, "encode succeeds")
	dec, offs, err := e.DecodeByteArray(vBytes("dirty2", 2), enc, make([]uint32, 0, 1))
	vAssert(err == nil, "decode succeeds")
	vAssert(vBytesEq(dec, orig), "real decoder returns the input bytes")
	for i := 0; i < len(offs) && i < len(offsets); i++ {
		vAssert(offs[i] == offsets[i], "real decoder returns the input offsets")
	}
	vAssert(len(offs) == len(offsets) || len(vals) == 0, "decoded value count")
	lengths, p, ok := specDeltaDecodeAt(enc)
	vAssert(ok && len(lengths) == len(vals), "spec: one length per value")
	if !ok || len(lengths) != len(vals) {
		return
	}
	for i := range vals {
		l := int(lengths[i])
		vAssert(l == len(vals[i]) && p+l <= len(enc), "spec: length of the value")
		if l != len(vals[i]) || p+l > len(enc) {
			return
		}
		vAssert(vBytesEq(enc[p:p+l], vals[i]), "spec decoder returns the input value")
		p += l
	}
	vAssert(p == len(enc), "spec: no trailing bytes")
	vCover("roundtrip")
}

// DELTA_BYTE_ARRAY for FIXED_LEN_BYTE_ARRAY values: n values of `size` bytes
// (repeated values, shared prefixes and distinct values arise from the symbolic
// bytes by case split).
func VerifH_C04_deltaFixedLenByteArray() {
	vUnwind(200)
	size := vChoose("size", 1, 2)
	n := vChoose("n", 0, 3)
	data := vBytes("values", n*size)
	orig := append([]byte(nil), data...)
	e := &ByteArrayEncoding{}
	enc, err := e.EncodeFixedLenByteArray(vBytes("dirty", 3), data, size)
	vAssert(err == nil, "encode succeeds")
	vAssert(vBytesEq(data, orig), "encoder does not modify its input")
	dec, err := e.DecodeFixedLenByteArray(vBytes("dirty2", 2), enc, size)
	vAssert(err == nil, "decode succeeds")
	vAssert(vBytesEq(dec, orig), "real decoder returns the input bytes")
	prefixes, p1, ok := specDeltaDecodeAt(enc)
	vAssert(ok, "spec: prefix lengths decode")
	suffixes, p2, ok2 := specDeltaDecodeAt(enc[p1:])
	vAssert(ok2, "spec: suffix lengths decode")
	vAssert(len(prefixes) == n && len(suffixes) == n, "spec: one prefix and one suffix length per value")
	if !ok || !ok2 || len(prefixes) != n || len(suffixes) != n {
		return
	}
	pos := p1 + p2
	var prev []byte
	for i := 0; i < n; i++ {
		pl, sl := int(prefixes[i]), int(suffixes[i])
		vAssert(pl >= 0 && pl <= len(prev) && sl >= 0 && pos+sl <= len(enc) && pl+sl == size, "spec: lengths are consistent with the fixed size")
		if pl < 0 || pl > len(prev) || sl < 0 || pos+sl > len(enc) {
			return
		}
		v := append(append([]byte(nil), prev[:pl]...), enc[pos:pos+sl]...)
		pos += sl
		vAssert(vBytesEq(v, orig[i*size:(i+1)*size]), "spec decoder returns the input value")
		prev = v
	}
	vAssert(pos == len(enc), "spec: no trailing bytes")
	vCover("roundtrip")
}

//go:build verif

package delta

// C04 DELTA_BINARY_PACKED: real encoder -> real decoder and a decoder written
// from Encodings.md. Values are unrestricted: wrap-around of the deltas is the
// point.

// Concretisation points: the miniblock bit width is case-split on entry to the
// packer instead of at every derived slice index.
//verif:concretize verifPack32 2 0 32
//verif:concretize verifPack64 2 0 64

// Assume-guarantee step (DESIGN 2.9): on entry to the packer the engine proves,
// with the solver, that every value fits in the chosen bit width (the packer's
// precondition) and hands that fact to the term simplifier; the real packer then
// runs. Natively these wrappers are not used.
//verif:wrap encodeMiniBlockInt32 => verifPack32
//verif:wrap encodeMiniBlockInt64 => verifPack64

func verifPack32(dst []byte, src *[miniBlockSize]int32, bitWidth uint) {
	for i := range src {
		vLearnBits(uint64(uint32(src[i])), int(bitWidth))
	}
	encodeMiniBlockInt32(dst, src, bitWidth)
}

func verifPack64(dst []byte, src *[miniBlockSize]int64, bitWidth uint) {
	for i := range src {
		vLearnBits(uint64(src[i]), int(bitWidth))
	}
	encodeMiniBlockInt64(dst, src, bitWidth)
}

type specReader struct {
	b   []byte
	pos int
	ok  bool
}

func (r *specReader) uvarint() uint64 {
	var x uint64
	var s uint
	for {
		if r.pos >= len(r.b) || s > 63 {
			r.ok = false
			return 0
		}
		c := r.b[r.pos]
		r.pos++
		x |= uint64(c&0x7f) << s
		s += 7
		if c&0x80 == 0 {
			return x
		}
	}
}

func (r *specReader) zigzag() int64 {
	u := r.uvarint()
	return int64(u>>1) ^ -int64(u&1)
}

// specDeltaDecode returns the decoded values as int64 (callers narrow to the column width).
func specDeltaDecode(src []byte, width uint) (out []int64, ok bool) {
	r := &specReader{b: src, ok: true}
	blockSize := int(r.uvarint())
	miniBlocks := int(r.uvarint())
	total := int(r.uvarint())
	first := r.zigzag()
	if !r.ok || miniBlocks == 0 || blockSize == 0 || total > 1024 {
		return nil, false
	}
	if total == 0 {
		return nil, true
	}
	perMini := blockSize / miniBlocks
	out = append(out, first)
	last := first
	for len(out) < total {
		minDelta := r.zigzag()
		if !r.ok || r.pos+miniBlocks > len(r.b) {
			return out, false
		}
		widths := r.b[r.pos : r.pos+miniBlocks]
		r.pos += miniBlocks
		for m := 0; m < miniBlocks && len(out) < total; m++ {
			w := int(widths[m])
			nbytes := perMini * w / 8
			if r.pos+nbytes > len(r.b) {
				return out, false
			}
			for v := 0; v < perMini && len(out) < total; v++ {
				var d uint64
				for b := 0; b < w; b++ {
					bit := v*w + b
					d |= uint64(r.b[r.pos+bit/8]>>(uint(bit)%8)&1) << uint(b)
				}
				x := last + minDelta + int64(d)
				if width == 32 {
					x = int64(int32(x))
				}
				out = append(out, x)
				last = x
			}
			r.pos += nbytes
		}
	}
	return out, true
}

func VerifH_C04_deltaInt32() {
	vUnwind(140)
	n := vChoose("n", 0, 2)
	src := make([]int32, n)
	for i := range src {
		src[i] = vI32("v")
	}
	orig := append([]int32(nil), src...)
	e := &BinaryPackedEncoding{}
	enc, err := e.EncodeInt32(vBytes("dirty", 3), src)
	vAssert(err == nil, "encode succeeds")
	dec, err := e.DecodeInt32(make([]int32, 0, 1), enc)
	vAssert(err == nil, "decode succeeds")
	vAssert(len(dec) == n, "decoded length")
	c := make([]bool, 0, n)
	for i := 0; i < n && i < len(dec); i++ {
		c = append(c, dec[i] == orig[i])
	}
	vAssert(vAll(c...), "real decoder returns the input")
	spec, ok := specDeltaDecode(enc, 32)
	vAssert(ok, "spec decoder accepts the bytes")
	vAssert(len(spec) == n, "spec decoded length")
	c = c[:0]
	for i := 0; i < n && i < len(spec); i++ {
		c = append(c, int32(spec[i]) == orig[i])
	}
	vAssert(vAll(c...), "spec decoder returns the input")
	vCover("roundtrip")
}

func VerifH_C04_deltaInt64() {
	vUnwind(140)
	n := vChoose("n", 0, 2)
	src := make([]int64, n)
	for i := range src {
		src[i] = vI64("v")
	}
	orig := append([]int64(nil), src...)
	e := &BinaryPackedEncoding{}
	enc, err := e.EncodeInt64(vBytes("dirty", 3), src)
	vAssert(err == nil, "encode succeeds")
	dec, err := e.DecodeInt64(make([]int64, 0, 1), enc)
	vAssert(err == nil, "decode succeeds")
	vAssert(len(dec) == n, "decoded length")
	c := make([]bool, 0, n)
	for i := 0; i < n && i < len(dec); i++ {
		c = append(c, dec[i] == orig[i])
	}
	vAssert(vAll(c...), "real decoder returns the input")
	spec, ok := specDeltaDecode(enc, 64)
	vAssert(ok, "spec decoder accepts the bytes")
	vAssert(len(spec) == n, "spec decoded length")
	c = c[:0]
	for i := 0; i < n && i < len(spec); i++ {
		c = append(c, spec[i] == orig[i])
	}
	vAssert(vAll(c...), "spec decoder returns the input")
	vCover("roundtrip")
}

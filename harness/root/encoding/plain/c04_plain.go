//go:build verif

package plain

// C04 PLAIN: byte arrays (4-byte LE length prefix + bytes), fixed-width numerics
// (little endian), fixed-len byte arrays and booleans (copy).

func VerifH_C04_plainByteArray() {
	vUnwind(16)
	n := vChoose("count", 0, 3)
	total := 0
	lens := make([]int, n)
	for i := range lens {
		lens[i] = vChoose("len", 0, 3)
		total += lens[i]
	}
	src := vBytes("data", total)
	offsets := make([]uint32, 0, n+1)
	if n > 0 || vChoose("emptyOffsets", 0, 1) == 1 {
		o := uint32(0)
		offsets = append(offsets, o)
		for _, l := range lens {
			o += uint32(l)
			offsets = append(offsets, o)
		}
	}
	e := &Encoding{}
	enc, err := e.EncodeByteArray(vBytes("dirty", 5), src, offsets)
	vAssert(err == nil, "encode succeeds")
	// spec: each value is a 4-byte little-endian length followed by the bytes
	pos, off := 0, 0
	ok := true
	conds := []bool{}
	for i := 0; i < n; i++ {
		if pos+4 > len(enc) {
			ok = false
			break
		}
		conds = append(conds, int(enc[pos]) == lens[i]&0xff, enc[pos+1] == 0, enc[pos+2] == 0, enc[pos+3] == 0)
		pos += 4
		if pos+lens[i] > len(enc) {
			ok = false
			break
		}
		conds = append(conds, vBytesEq(enc[pos:pos+lens[i]], src[off:off+lens[i]]))
		pos += lens[i]
		off += lens[i]
	}
	vAssert(ok, "spec layout: enough bytes")
	vAssert(pos == len(enc), "spec layout: no trailing bytes")
	vAssert(vAll(conds...), "spec layout: lengths and payloads")
	dec, offs, err := e.DecodeByteArray(vBytes("dirty2", 2), enc, make([]uint32, 1, 2))
	vAssert(err == nil, "decode succeeds")
	vAssert(len(offs) == n+1, "decoded offsets count")
	vAssert(vBytesEq(dec, src), "decoded bytes equal input")
	oc := []bool{}
	o := 0
	for i := 0; i < len(offs) && i <= n; i++ {
		oc = append(oc, int(offs[i]) == o)
		if i < n {
			o += lens[i]
		}
	}
	vAssert(vAll(oc...), "decoded offsets equal input offsets")
	vCover("roundtrip")
}

func VerifH_C04_plainNumeric() {
	n := vChoose("n", 0, 3)
	s32 := make([]int32, n)
	s64 := make([]int64, n)
	f32 := make([]float32, n)
	f64 := make([]float64, n)
	for i := 0; i < n; i++ {
		s32[i], s64[i], f32[i], f64[i] = vI32("i32"), vI64("i64"), vF32("f32"), vF64("f64")
	}
	e := &Encoding{}
	b, err := e.EncodeInt32(vBytes("d", 3), s32)
	vAssert(err == nil && len(b) == 4*n, "int32 encoded size")
	c := []bool{}
	for i := 0; i < n && 4*i+3 < len(b); i++ {
		u := uint32(s32[i])
		c = append(c, b[4*i] == byte(u), b[4*i+1] == byte(u>>8), b[4*i+2] == byte(u>>16), b[4*i+3] == byte(u>>24))
	}
	vAssert(vAll(c...), "int32 little endian")
	d32, err := e.DecodeInt32(make([]int32, 0, 1), b)
	vAssert(err == nil && len(d32) == n, "int32 decode")
	c = c[:0]
	for i := 0; i < n && i < len(d32); i++ {
		c = append(c, d32[i] == s32[i])
	}
	vAssert(vAll(c...), "int32 round trip")

	b, err = e.EncodeInt64(vBytes("d", 3), s64)
	vAssert(err == nil && len(b) == 8*n, "int64 encoded size")
	c = c[:0]
	for i := 0; i < n && 8*i+7 < len(b); i++ {
		u := uint64(s64[i])
		for k := 0; k < 8; k++ {
			c = append(c, b[8*i+k] == byte(u>>(8*uint(k))))
		}
	}
	vAssert(vAll(c...), "int64 little endian")
	d64, err := e.DecodeInt64(nil, b)
	vAssert(err == nil && len(d64) == n, "int64 decode")
	c = c[:0]
	for i := 0; i < n && i < len(d64); i++ {
		c = append(c, d64[i] == s64[i])
	}
	vAssert(vAll(c...), "int64 round trip")

	b, err = e.EncodeFloat(nil, f32)
	vAssert(err == nil && len(b) == 4*n, "float encoded size")
	df, err := e.DecodeFloat(nil, b)
	vAssert(err == nil && len(df) == n, "float decode")
	b, err = e.EncodeDouble(nil, f64)
	vAssert(err == nil && len(b) == 8*n, "double encoded size")
	dd, err := e.DecodeDouble(nil, b)
	vAssert(err == nil && len(dd) == n, "double decode")
	c = c[:0]
	for i := 0; i < n && i < len(df) && i < len(dd); i++ {
		c = append(c, verifF32bits(df[i]) == verifF32bits(f32[i]), verifF64bits(dd[i]) == verifF64bits(f64[i]))
	}
	vAssert(vAll(c...), "float/double round trip by bit pattern")
	// truncated input is rejected, never a panic
	if n > 0 {
		_, err = e.DecodeInt32(nil, b[:len(b)-1])
		_ = err
		_, err = e.DecodeDouble(nil, b[:len(b)-1])
		vAssert(err != nil, "truncated double input rejected")
	}
	vCover("roundtrip")
}

func VerifH_C04_plainFixed() {
	size := vChoose("size", 1, 3)
	n := vChoose("n", 0, 3)
	src := vBytes("data", size*n)
	e := &Encoding{}
	enc, err := e.EncodeFixedLenByteArray(vBytes("dirty", 2), src, size)
	vAssert(err == nil, "encode")
	vAssert(vBytesEq(enc, src), "PLAIN fixed-len is the concatenation")
	dec, err := e.DecodeFixedLenByteArray(vBytes("dirty2", 2), enc, size)
	vAssert(err == nil, "decode")
	vAssert(vBytesEq(dec, src), "round trip")
	bits := vBytes("bits", n)
	eb, _ := e.EncodeBoolean(vBytes("dirty3", 1), bits)
	db, _ := e.DecodeBoolean(nil, eb)
	vAssert(vBytesEq(db, bits), "boolean round trip")
	vCover("roundtrip")
}

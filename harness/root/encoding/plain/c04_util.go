//go:build verif

package plain

import "math"

func verifF32bits(f float32) uint32 { return math.Float32bits(f) }
func verifF64bits(f float64) uint64 { return math.Float64bits(f) }

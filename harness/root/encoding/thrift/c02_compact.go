//go:build verif

package thrift

import "bytes"

// C02.K4: Thrift compact protocol primitives, the layer every footer and page
// header goes through. What the writer emits is decoded (a) by the library's
// reader and (b) by a decoder written from the thrift-compact-protocol spec.

func specUvarint(b []byte, pos int) (uint64, int, bool) {
	var x uint64
	var s uint
	for i := 0; i < 10; i++ {
		if pos >= len(b) {
			return 0, pos, false
		}
		c := b[pos]
		pos++
		x |= uint64(c&0x7f) << s
		s += 7
		if c&0x80 == 0 {
			return x, pos, true
		}
	}
	return 0, pos, false
}

func specZigzag(u uint64) int64 { return int64(u>>1) ^ -int64(u&1) }

func VerifH_C02_compactIntegers() {
	vUnwind(32)
	p := new(CompactProtocol)
	buf := new(bytes.Buffer)
	w := p.NewWriter(buf)
	a, b, c := vI16("i16"), vI32("i32"), vI64("i64")
	vAssert(w.WriteInt16(a) == nil && w.WriteInt32(b) == nil && w.WriteInt64(c) == nil, "integers encode")
	enc := append([]byte(nil), buf.Bytes()...)
	// spec: zig-zag varints
	u, pos, ok := specUvarint(enc, 0)
	vAssert(ok && int16(specZigzag(u)) == a, "i16 is a zig-zag varint")
	u, pos, ok = specUvarint(enc, pos)
	vAssert(ok && int32(specZigzag(u)) == b, "i32 is a zig-zag varint")
	u, pos, ok = specUvarint(enc, pos)
	vAssert(ok && specZigzag(u) == c, "i64 is a zig-zag varint")
	vAssert(pos == len(enc), "no extra bytes")
	r := p.NewReader(bytes.NewReader(enc))
	ra, e1 := r.ReadInt16()
	rb, e2 := r.ReadInt32()
	rc, e3 := r.ReadInt64()
	vAssert(e1 == nil && e2 == nil && e3 == nil, "integers decode")
	vAssert(ra == a && rb == b && rc == c, "reader returns the written integers")
	vCover("integers")
}

func VerifH_C02_compactHeaders() {
	vUnwind(32)
	p := new(CompactProtocol)
	buf := new(bytes.Buffer)
	w := p.NewWriter(buf)
	typ := Type(vChoose("type", 1, 12))
	id := vI16("fieldID")
	vAssume(id >= 1) // field ids and deltas are positive
	size := vI32("listSize")
	vAssume(size >= 0)
	vAssert(w.WriteField(Field{ID: id, Type: typ}) == nil, "field header encodes")
	vAssert(w.WriteList(List{Size: size, Type: typ}) == nil, "list header encodes")
	n := vChoose("binLen", 0, 3)
	data := vBytes("bin", n)
	vAssert(w.WriteBytes(data) == nil, "binary encodes")
	vAssert(w.WriteField(Field{Type: STOP}) == nil, "stop encodes")
	enc := append([]byte(nil), buf.Bytes()...)
	// spec decoding
	pos := 0
	h := enc[pos]
	pos++
	if h>>4 != 0 {
		vAssert(int16(h>>4) == id && Type(h&0xf) == typ && id <= 15, "short form field header: delta in the high nibble")
	} else {
		u, np, ok := specUvarint(enc, pos)
		pos = np
		vAssert(ok && Type(h) == typ && int16(specZigzag(u)) == id, "long form field header: type byte then zig-zag id")
	}
	lh := enc[pos]
	pos++
	vAssert(Type(lh&0xf) == typ, "list header carries the element type")
	if lh>>4 != 0xf {
		vAssert(int32(lh>>4) == size, "short list header: size in the high nibble")
	} else {
		u, np, ok := specUvarint(enc, pos)
		pos = np
		vAssert(ok && u == uint64(size) && size >= 15, "long list header: 0xF then varint size")
	}
	u, np, ok := specUvarint(enc, pos)
	pos = np
	vAssert(ok && int(u) == n && pos+n <= len(enc) && vBytesEq(enc[pos:pos+n], data), "binary: varint length then bytes")
	pos += n
	vAssert(pos+1 == len(enc) && enc[pos] == 0, "stop field is a zero byte")
	// library reader
	r := p.NewReader(bytes.NewReader(enc))
	f, err := r.ReadField()
	vAssert(err == nil && f.ID == id && f.Type == typ && f.Delta == (id <= 15), "reader returns the field header")
	l, err := r.ReadList()
	vAssert(err == nil && l.Size == size && l.Type == typ, "reader returns the list header")
	rb, err := r.ReadBytes()
	vAssert(err == nil && vBytesEq(rb, data), "reader returns the binary value")
	f, err = r.ReadField()
	vAssert(err == nil && f.Type == STOP, "reader returns the stop field")
	vCover("headers")
}

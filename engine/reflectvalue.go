package main

// Model of reflect.Value over the engine's heap. A reflect.Value register is
// the real three-word struct {typ_, ptr, flag} with our own meaning:
//
//	typ_  pointer to the reserved rtype object of the value's static type (nil: invalid Value)
//	ptr   pointer to storage that holds the value (always indirect)
//	flag  bit0: addressable (and so settable), bit1: reached through an unexported field
//
// Client code never looks inside a reflect.Value, so only the methods below
// need to agree with this layout. The structure of the values (types, slice
// lengths, nil-ness of pointers) is concrete; scalar payloads may be symbolic.

import (
	"fmt"
	"go/token"
	"go/types"
	"reflect"

	"golang.org/x/tools/go/ssa"
)

const (
	rvAddr    = 1
	rvRO      = 2 // sticky: reached through an unexported non-embedded field
	rvEmbedRO = 4 // reached through an unexported embedded field; exported fields below it are settable again
)

// ro mirrors reflect's flag.ro(): any read-only bit becomes the sticky one.
func ro(flag uint64) uint64 {
	if flag&(rvRO|rvEmbedRO) != 0 {
		return rvRO
	}
	return 0
}

type rval struct {
	t    types.Type
	p    Ptr
	flag uint64
}

func (r rval) valid() bool { return r.t != nil }

func (in *Interp) reflectNamed(name string) types.Type {
	rp := in.prog.ImportedPackage("reflect")
	if rp == nil {
		in.fail("reflect package not loaded")
	}
	m := rp.Type(name)
	if m == nil {
		in.fail("reflect.%s not found", name)
	}
	return m.Type()
}

func (in *Interp) rvMake(t types.Type, p Ptr, flag uint64) Value {
	if t == nil {
		return &StructV{[]Value{Ptr{}, Ptr{}, in.ctx.Const(64, 0)}}
	}
	return &StructV{[]Value{Ptr{rtypeID(t), 0}, p, in.ctx.Const(64, flag)}}
}

func (in *Interp) rvOf(v Value) rval {
	sv, ok := v.(*StructV)
	if !ok || len(sv.F) != 3 {
		in.fail("reflect: not a reflect.Value register: %T", v)
	}
	tp := sv.F[0].(Ptr)
	if tp.ID == 0 {
		return rval{}
	}
	if tp.ID < rtypeBase {
		in.fail("reflect: Value with a foreign type pointer")
	}
	fl := sv.F[2].(*Term)
	if !fl.IsConst() {
		in.fail("reflect: symbolic Value flag")
	}
	return rval{rtypeOf(tp.ID), sv.F[1].(Ptr), fl.val}
}

func (in *Interp) rvMust(v Value, what string) rval {
	r := in.rvOf(v)
	if !r.valid() {
		in.gopanic("reflect: call of " + what + " on zero Value")
	}
	return r
}

// rvFresh allocates storage for a value of type t and returns a non-addressable Value.
func (in *Interp) rvFresh(t types.Type, v Value, flag uint64) Value {
	p := in.newObject(sizeof(t), t, "reflect.value")
	in.store(p, t, v)
	return in.rvMake(t, p, flag)
}

func (in *Interp) rvLoad(r rval) Value { return in.load(r.p, r.t) }

func (in *Interp) rvKind(r rval) reflect.Kind {
	if !r.valid() {
		return reflect.Invalid
	}
	return reflect.Kind(reflectKind(r.t))
}

func (in *Interp) rvMustSet(r rval, what string) {
	if r.flag&rvAddr == 0 {
		in.gopanic("reflect: " + what + " using unaddressable value")
	}
	if r.flag&(rvRO|rvEmbedRO) != 0 {
		in.gopanic("reflect: " + what + " using value obtained using unexported field")
	}
}

func (in *Interp) rtypeFromIface(v Value) types.Type {
	iv, ok := v.(*IfaceV)
	if !ok || iv == nil || iv.T == nil {
		in.gopanic("reflect: nil Type")
	}
	return in.rtypeArg(iv.V)
}

func (in *Interp) concInt(v Value, what string) int {
	t := v.(*Term)
	if t.IsConst() {
		return int(int64(t.val))
	}
	return int(in.concretize(t, what))
}

// rvAssignTo converts the value held by x for storing into a slot of type dst
// (reflect's assignability: identical underlying types, or boxing into an interface).
func (in *Interp) rvAssignTo(x rval, dst types.Type, what string) Value {
	if !x.valid() {
		in.gopanic("reflect: " + what + " of zero Value")
	}
	if types.IsInterface(dst) {
		if types.IsInterface(x.t) {
			return in.rvLoad(x)
		}
		if !types.Implements(x.t, dst.Underlying().(*types.Interface)) {
			in.gopanic(fmt.Sprintf("reflect.%s: value of type %s is not assignable to type %s", what, x.t, dst))
		}
		return &IfaceV{T: x.t, V: in.rvLoad(x)}
	}
	if !types.AssignableTo(x.t, dst) && !types.Identical(x.t.Underlying(), dst.Underlying()) {
		in.gopanic(fmt.Sprintf("reflect.%s: value of type %s is not assignable to type %s", what, x.t, dst))
	}
	return in.rvLoad(x)
}

func structFieldExported(f *types.Var) bool { return f.Exported() }

func (in *Interp) rvField(r rval, i int) Value {
	st, ok := r.t.Underlying().(*types.Struct)
	if !ok {
		in.gopanic("reflect: call of reflect.Value.Field on " + r.t.String() + " Value")
	}
	if i < 0 || i >= st.NumFields() {
		in.gopanic("reflect: Field index out of range")
	}
	offs := fieldOffsets(st)
	fl := r.flag & (rvAddr | rvRO)
	if !st.Field(i).Exported() {
		if st.Field(i).Embedded() {
			fl |= rvEmbedRO
		} else {
			fl |= rvRO
		}
	}
	return in.rvMake(st.Field(i).Type(), Ptr{r.p.ID, r.p.Off + int(offs[i])}, fl)
}

func (in *Interp) rvElem(r rval) Value {
	switch u := r.t.Underlying().(type) {
	case *types.Pointer:
		p := in.rvLoad(r).(Ptr)
		if p.ID == 0 {
			return in.rvMake(nil, Ptr{}, 0)
		}
		return in.rvMake(u.Elem(), p, rvAddr|(ro(r.flag)))
	case *types.Interface:
		iv := in.rvLoad(r).(*IfaceV)
		if iv == nil || iv.T == nil {
			return in.rvMake(nil, Ptr{}, 0)
		}
		return in.rvFresh(iv.T, iv.V, ro(r.flag))
	}
	in.gopanic("reflect: call of reflect.Value.Elem on " + r.t.String() + " Value")
	return nil
}

func (in *Interp) rvIsNil(r rval) bool {
	switch r.t.Underlying().(type) {
	case *types.Pointer:
		return in.rvLoad(r).(Ptr).ID == 0
	case *types.Slice:
		return in.rvLoad(r).(SliceV).P.ID == 0
	case *types.Map:
		return in.rvLoad(r).(MapV).H == 0
	case *types.Chan:
		return in.rvLoad(r).(ChanV).H == 0
	case *types.Interface:
		iv := in.rvLoad(r).(*IfaceV)
		return iv == nil || iv.T == nil
	case *types.Signature:
		f := in.rvLoad(r).(*FuncV)
		return f == nil || (f.Fn == nil && f.B == nil && f.N == nil)
	case *types.Basic:
		if isUnsafePointer(r.t) {
			return in.rvLoad(r).(Ptr).ID == 0
		}
	}
	in.gopanic("reflect: call of reflect.Value.IsNil on " + r.t.String() + " Value")
	return false
}

func (in *Interp) rvIsZero(t types.Type, p Ptr) *Term {
	c := in.ctx
	switch u := t.Underlying().(type) {
	case *types.Basic:
		if isString(t) {
			return c.Bool(in.load(p, t).(StrV).Len == 0)
		}
		if isUnsafePointer(t) {
			return c.Bool(in.load(p, t).(Ptr).ID == 0)
		}
		k, _ := basicInfo(u)
		v := in.load(p, t).(*Term)
		if k.isBool {
			return c.Not(v)
		}
		if k.float {
			r := in.binop(tokenEQL, t, v, in.zero(t), t)
			return r.(*Term)
		}
		return c.Eq(v, c.Const(v.w, 0))
	case *types.Struct:
		offs := fieldOffsets(u)
		r := c.Bool(true)
		for i := 0; i < u.NumFields(); i++ {
			r = c.And(r, in.rvIsZero(u.Field(i).Type(), Ptr{p.ID, p.Off + int(offs[i])}))
		}
		return r
	case *types.Array:
		es := sizeof(u.Elem())
		r := c.Bool(true)
		for i := 0; i < int(u.Len()); i++ {
			r = c.And(r, in.rvIsZero(u.Elem(), Ptr{p.ID, p.Off + i*es}))
		}
		return r
	default:
		return c.Bool(in.rvIsNil(rval{t, p, 0}))
	}
}

func (in *Interp) rvLen(r rval) int {
	switch u := r.t.Underlying().(type) {
	case *types.Slice:
		return in.rvLoad(r).(SliceV).Len
	case *types.Array:
		return int(u.Len())
	case *types.Map:
		m := in.rvLoad(r).(MapV)
		if m.H == 0 {
			return 0
		}
		return len(in.mapObj(m.H, false).vals)
	case *types.Chan:
		return 0
	case *types.Basic:
		if isString(r.t) {
			return in.rvLoad(r).(StrV).Len
		}
	}
	in.gopanic("reflect: call of reflect.Value.Len on " + r.t.String() + " Value")
	return 0
}

func (in *Interp) rvIndex(r rval, i int) Value {
	switch u := r.t.Underlying().(type) {
	case *types.Slice:
		s := in.rvLoad(r).(SliceV)
		if i < 0 || i >= s.Len {
			in.gopanic("reflect: slice index out of range")
		}
		return in.rvMake(u.Elem(), Ptr{s.P.ID, s.P.Off + i*sizeof(u.Elem())}, rvAddr|(ro(r.flag)))
	case *types.Array:
		if i < 0 || i >= int(u.Len()) {
			in.gopanic("reflect: array index out of range")
		}
		return in.rvMake(u.Elem(), Ptr{r.p.ID, r.p.Off + i*sizeof(u.Elem())}, (r.flag&rvAddr)|ro(r.flag))
	case *types.Basic:
		if isString(r.t) {
			s := in.rvLoad(r).(StrV)
			if i < 0 || i >= s.Len {
				in.gopanic("reflect: string index out of range")
			}
			return in.rvFresh(types.Typ[types.Uint8], in.loadBits(Ptr{s.P.ID, s.P.Off + i}, 1), ro(r.flag))
		}
	}
	in.gopanic("reflect: call of reflect.Value.Index on " + r.t.String() + " Value")
	return nil
}

func (in *Interp) rvInterface(r rval) Value {
	if types.IsInterface(r.t) {
		iv := in.rvLoad(r).(*IfaceV)
		if iv == nil {
			return &IfaceV{}
		}
		return iv
	}
	return &IfaceV{T: r.t, V: in.rvLoad(r)}
}

func (in *Interp) structFieldValue(t types.Type, st *types.Struct, i int, index []int) Value {
	sft := in.reflectNamed("StructField")
	f := st.Field(i)
	offs := fieldOffsets(st)
	pkgPath := StrV{}
	if !f.Exported() && f.Pkg() != nil {
		pkgPath = in.constString(f.Pkg().Path())
	}
	ip := in.newObject(8*len(index), types.Typ[types.Int], "reflect.StructField.Index")
	for k, x := range index {
		in.storeBits(Ptr{ip.ID, 8 * k}, 8, in.ctx.Const(64, uint64(x)))
	}
	_ = sft
	return &StructV{[]Value{
		in.constString(f.Name()),
		pkgPath,
		in.rtypeIface(f.Type()),
		in.constString(st.Tag(i)),
		in.ctx.Const(64, uint64(offs[i])),
		SliceV{ip, len(index), len(index)},
		in.ctx.Bool(f.Embedded()),
	}}
}

// lookupFieldPath finds a field by name the way reflect.Type.FieldByName does
// (breadth-first through embedded structs).
func lookupFieldPath(t types.Type, name string) ([]int, *types.Struct, bool) {
	type ent struct {
		t    types.Type
		path []int
	}
	cur := []ent{{t, nil}}
	seen := map[string]bool{}
	for len(cur) > 0 {
		var next []ent
		var found []int
		var foundSt *types.Struct
		n := 0
		for _, e := range cur {
			tt := e.t
			if p, ok := tt.Underlying().(*types.Pointer); ok {
				tt = p.Elem()
			}
			st, ok := tt.Underlying().(*types.Struct)
			if !ok {
				continue
			}
			key := types.TypeString(tt, nil)
			if seen[key] {
				continue
			}
			seen[key] = true
			for i := 0; i < st.NumFields(); i++ {
				f := st.Field(i)
				path := append(append([]int(nil), e.path...), i)
				if f.Name() == name {
					n++
					found, foundSt = path, st
					continue
				}
				if f.Embedded() {
					next = append(next, ent{f.Type(), path})
				}
			}
		}
		if n == 1 {
			return found, foundSt, true
		}
		if n > 1 {
			return nil, nil, false
		}
		cur = next
	}
	return nil, nil, false
}

func (in *Interp) rvFieldByIndex(r rval, idx []int) Value {
	var cur Value
	for k, i := range idx {
		if k > 0 {
			if _, ok := r.t.Underlying().(*types.Pointer); ok {
				e := in.rvOf(in.rvElem(r))
				if !e.valid() {
					in.gopanic("reflect: indirection through nil pointer to embedded struct")
				}
				r = e
			}
		}
		cur = in.rvField(r, i)
		r = in.rvOf(cur)
	}
	return cur
}

func (in *Interp) mapGet(m MapV, k Value) (Value, bool) {
	if m.H == 0 {
		return nil, false
	}
	o := in.mapObj(m.H, false)
	ks, found := in.mapKey(o, k)
	if !found {
		return nil, false
	}
	v, ok := o.vals[ks]
	return v, ok
}

type reflMapIter struct {
	m    MapV
	mt   *types.Map
	keys []string
	kv   []Value
	i    int
	ro   uint64
}

var tokenEQL = token.EQL

func init() {
	reg := func(name string, f libFn) { libIntrinsics["reflect."+name] = f }
	bool2 := func(in *Interp, b bool) Value { return in.ctx.Bool(b) }

	reg("ValueOf", func(in *Interp, fn *ssa.Function, args []Value) Value {
		iv := args[0].(*IfaceV)
		if iv == nil || iv.T == nil {
			return in.rvMake(nil, Ptr{}, 0)
		}
		return in.rvFresh(iv.T, iv.V, 0)
	})
	reg("Zero", func(in *Interp, fn *ssa.Function, args []Value) Value {
		t := in.rtypeFromIface(args[0])
		return in.rvFresh(t, in.zero(t), 0)
	})
	reg("New", func(in *Interp, fn *ssa.Function, args []Value) Value {
		t := in.rtypeFromIface(args[0])
		p := in.newObject(sizeof(t), t, "reflect.New")
		return in.rvFresh(types.NewPointer(t), p, 0)
	})
	reg("NewAt", func(in *Interp, fn *ssa.Function, args []Value) Value {
		t := in.rtypeFromIface(args[0])
		return in.rvFresh(types.NewPointer(t), args[1].(Ptr), 0)
	})
	reg("Indirect", func(in *Interp, fn *ssa.Function, args []Value) Value {
		r := in.rvOf(args[0])
		if r.valid() {
			if _, ok := r.t.Underlying().(*types.Pointer); ok {
				return in.rvElem(r)
			}
		}
		return args[0]
	})
	reg("MakeSlice", func(in *Interp, fn *ssa.Function, args []Value) Value {
		t := in.rtypeFromIface(args[0])
		st, ok := t.Underlying().(*types.Slice)
		if !ok {
			in.gopanic("reflect.MakeSlice of non-slice type")
		}
		n, c := in.concInt(args[1], "reflect.MakeSlice len"), in.concInt(args[2], "reflect.MakeSlice cap")
		if n < 0 || c < n {
			in.gopanic("reflect.MakeSlice: bad len/cap")
		}
		p := in.newObject(c*sizeof(st.Elem()), st.Elem(), "reflect.MakeSlice")
		return in.rvFresh(t, SliceV{p, n, c}, 0)
	})
	makeMap := func(in *Interp, fn *ssa.Function, args []Value) Value {
		t := in.rtypeFromIface(args[0])
		mt, ok := t.Underlying().(*types.Map)
		if !ok {
			in.gopanic("reflect.MakeMap of non-map type")
		}
		in.nextMap++
		in.maps[in.nextMap] = &MapObj{kvals: map[string]Value{}, vals: map[string]Value{}, kt: mt.Key(), vt: mt.Elem()}
		return in.rvFresh(t, MapV{in.nextMap}, 0)
	}
	reg("MakeMap", makeMap)
	reg("MakeMapWithSize", makeMap)
	reg("PointerTo", func(in *Interp, fn *ssa.Function, args []Value) Value {
		return in.rtypeIface(types.NewPointer(in.rtypeFromIface(args[0])))
	})
	libIntrinsics["reflect.PtrTo"] = libIntrinsics["reflect.PointerTo"]
	reg("SliceOf", func(in *Interp, fn *ssa.Function, args []Value) Value {
		return in.rtypeIface(types.NewSlice(in.rtypeFromIface(args[0])))
	})
	reg("ArrayOf", func(in *Interp, fn *ssa.Function, args []Value) Value {
		return in.rtypeIface(types.NewArray(in.rtypeFromIface(args[1]), int64(in.concInt(args[0], "reflect.ArrayOf"))))
	})
	reg("StructOf", func(in *Interp, fn *ssa.Function, args []Value) Value {
		fs := args[0].(SliceV)
		sft := in.reflectNamed("StructField")
		sz := sizeof(sft)
		vars := make([]*types.Var, fs.Len)
		tags := make([]string, fs.Len)
		for i := 0; i < fs.Len; i++ {
			f := in.load(Ptr{fs.P.ID, fs.P.Off + i*sz}, sft).(*StructV)
			name := in.mustString(f.F[0].(StrV))
			if name == "" {
				in.gopanic("reflect.StructOf: field " + fmt.Sprint(i) + " has no name")
			}
			if !token.IsExported(name) {
				in.gopanic("reflect.StructOf: field \"" + name + "\" is unexported but missing PkgPath")
			}
			ft := in.rtypeFromIface(f.F[2])
			emb, _ := f.F[6].(*Term)
			vars[i] = types.NewField(token.NoPos, nil, name, ft, emb != nil && emb.IsConst() && emb.val != 0)
			tags[i] = in.mustString(f.F[3].(StrV))
		}
		return in.rtypeIface(types.NewStruct(vars, tags))
	})
	reg("MapOf", func(in *Interp, fn *ssa.Function, args []Value) Value {
		return in.rtypeIface(types.NewMap(in.rtypeFromIface(args[0]), in.rtypeFromIface(args[1])))
	})

	// ---- Type methods that need struct/field data ----
	reg("rtype.Field", func(in *Interp, fn *ssa.Function, args []Value) Value {
		t := in.rtypeArg(args[0])
		st, ok := t.Underlying().(*types.Struct)
		if !ok {
			in.gopanic("reflect: Field of non-struct type " + t.String())
		}
		i := in.concInt(args[1], "reflect.Type.Field")
		if i < 0 || i >= st.NumFields() {
			in.gopanic("reflect: Field index out of bounds")
		}
		return in.structFieldValue(t, st, i, []int{i})
	})
	reg("rtype.FieldByName", func(in *Interp, fn *ssa.Function, args []Value) Value {
		t := in.rtypeArg(args[0])
		if _, ok := t.Underlying().(*types.Struct); !ok {
			in.gopanic("reflect: FieldByName of non-struct type " + t.String())
		}
		name := in.mustString(args[1].(StrV))
		path, st, ok := lookupFieldPath(t, name)
		if !ok {
			return TupleV{in.zero(in.reflectNamed("StructField")), in.ctx.Bool(false)}
		}
		return TupleV{in.structFieldValue(t, st, path[len(path)-1], path), in.ctx.Bool(true)}
	})
	reg("rtype.Implements", func(in *Interp, fn *ssa.Function, args []Value) Value {
		t := in.rtypeArg(args[0])
		u := in.rtypeFromIface(args[1])
		it, ok := u.Underlying().(*types.Interface)
		if !ok {
			in.gopanic("reflect: non-interface type passed to Type.Implements")
		}
		return in.ctx.Bool(types.Implements(t, it))
	})
	reg("rtype.AssignableTo", func(in *Interp, fn *ssa.Function, args []Value) Value {
		return in.ctx.Bool(types.AssignableTo(in.rtypeArg(args[0]), in.rtypeFromIface(args[1])))
	})
	reg("rtype.ConvertibleTo", func(in *Interp, fn *ssa.Function, args []Value) Value {
		return in.ctx.Bool(types.ConvertibleTo(in.rtypeArg(args[0]), in.rtypeFromIface(args[1])))
	})
	reg("rtype.NumMethod", func(in *Interp, fn *ssa.Function, args []Value) Value {
		t := in.rtypeArg(args[0])
		ms := in.prog.MethodSets.MethodSet(t)
		n := 0
		for i := 0; i < ms.Len(); i++ {
			if ms.At(i).Obj().Exported() {
				n++
			}
		}
		return in.ctx.Const(64, uint64(n))
	})

	// ---- Value: inspection ----
	reg("Value.IsValid", func(in *Interp, fn *ssa.Function, args []Value) Value { return bool2(in, in.rvOf(args[0]).valid()) })
	reg("Value.Kind", func(in *Interp, fn *ssa.Function, args []Value) Value {
		return in.ctx.Const(64, uint64(in.rvKind(in.rvOf(args[0]))))
	})
	reg("Value.Type", func(in *Interp, fn *ssa.Function, args []Value) Value {
		return in.rtypeIface(in.rvMust(args[0], "reflect.Value.Type").t)
	})
	reg("Value.CanAddr", func(in *Interp, fn *ssa.Function, args []Value) Value {
		return bool2(in, in.rvOf(args[0]).flag&rvAddr != 0)
	})
	reg("Value.CanSet", func(in *Interp, fn *ssa.Function, args []Value) Value {
		return bool2(in, in.rvOf(args[0]).flag&(rvAddr|rvRO|rvEmbedRO) == rvAddr)
	})
	reg("Value.CanInterface", func(in *Interp, fn *ssa.Function, args []Value) Value {
		return bool2(in, in.rvMust(args[0], "reflect.Value.CanInterface").flag&(rvRO|rvEmbedRO) == 0)
	})
	reg("Value.IsNil", func(in *Interp, fn *ssa.Function, args []Value) Value {
		return bool2(in, in.rvIsNil(in.rvMust(args[0], "reflect.Value.IsNil")))
	})
	reg("Value.IsZero", func(in *Interp, fn *ssa.Function, args []Value) Value {
		r := in.rvMust(args[0], "reflect.Value.IsZero")
		return in.rvIsZero(r.t, r.p)
	})
	reg("Value.Len", func(in *Interp, fn *ssa.Function, args []Value) Value {
		return in.ctx.Const(64, uint64(in.rvLen(in.rvMust(args[0], "reflect.Value.Len"))))
	})
	reg("Value.Cap", func(in *Interp, fn *ssa.Function, args []Value) Value {
		r := in.rvMust(args[0], "reflect.Value.Cap")
		switch u := r.t.Underlying().(type) {
		case *types.Slice:
			return in.ctx.Const(64, uint64(in.rvLoad(r).(SliceV).Cap))
		case *types.Array:
			return in.ctx.Const(64, uint64(u.Len()))
		}
		in.gopanic("reflect: call of reflect.Value.Cap on " + r.t.String() + " Value")
		return nil
	})
	reg("Value.NumField", func(in *Interp, fn *ssa.Function, args []Value) Value {
		r := in.rvMust(args[0], "reflect.Value.NumField")
		st, ok := r.t.Underlying().(*types.Struct)
		if !ok {
			in.gopanic("reflect: call of reflect.Value.NumField on " + r.t.String() + " Value")
		}
		return in.ctx.Const(64, uint64(st.NumFields()))
	})

	// ---- Value: navigation ----
	reg("Value.Elem", func(in *Interp, fn *ssa.Function, args []Value) Value {
		return in.rvElem(in.rvMust(args[0], "reflect.Value.Elem"))
	})
	reg("Value.Field", func(in *Interp, fn *ssa.Function, args []Value) Value {
		return in.rvField(in.rvMust(args[0], "reflect.Value.Field"), in.concInt(args[1], "reflect.Value.Field"))
	})
	reg("Value.FieldByIndex", func(in *Interp, fn *ssa.Function, args []Value) Value {
		r := in.rvMust(args[0], "reflect.Value.FieldByIndex")
		s := args[1].(SliceV)
		idx := make([]int, s.Len)
		for k := range idx {
			idx[k] = in.loadInt(Ptr{s.P.ID, s.P.Off + 8*k})
		}
		if len(idx) == 0 {
			return args[0]
		}
		return in.rvFieldByIndex(r, idx)
	})
	reg("Value.FieldByName", func(in *Interp, fn *ssa.Function, args []Value) Value {
		r := in.rvMust(args[0], "reflect.Value.FieldByName")
		path, _, ok := lookupFieldPath(r.t, in.mustString(args[1].(StrV)))
		if !ok {
			return in.rvMake(nil, Ptr{}, 0)
		}
		return in.rvFieldByIndex(r, path)
	})
	reg("Value.Index", func(in *Interp, fn *ssa.Function, args []Value) Value {
		return in.rvIndex(in.rvMust(args[0], "reflect.Value.Index"), in.concInt(args[1], "reflect.Value.Index"))
	})
	reg("Value.Addr", func(in *Interp, fn *ssa.Function, args []Value) Value {
		r := in.rvMust(args[0], "reflect.Value.Addr")
		if r.flag&rvAddr == 0 {
			in.gopanic("reflect.Value.Addr of unaddressable value")
		}
		return in.rvFresh(types.NewPointer(r.t), r.p, ro(r.flag))
	})
	ptrOf := func(in *Interp, r rval, what string) Ptr {
		switch r.t.Underlying().(type) {
		case *types.Pointer:
			return in.rvLoad(r).(Ptr)
		case *types.Slice:
			return in.rvLoad(r).(SliceV).P
		case *types.Basic:
			if isUnsafePointer(r.t) {
				return in.rvLoad(r).(Ptr)
			}
			if isString(r.t) {
				return in.rvLoad(r).(StrV).P
			}
		case *types.Map:
			m := in.rvLoad(r).(MapV)
			if m.H == 0 {
				return Ptr{}
			}
			return Ptr{0, int(mapTag>>32) + m.H} // opaque, only compared
		}
		in.gopanic("reflect: call of " + what + " on " + r.t.String() + " Value")
		return Ptr{}
	}
	reg("Value.UnsafePointer", func(in *Interp, fn *ssa.Function, args []Value) Value {
		return ptrOf(in, in.rvMust(args[0], "reflect.Value.UnsafePointer"), "reflect.Value.UnsafePointer")
	})
	reg("Value.Pointer", func(in *Interp, fn *ssa.Function, args []Value) Value {
		return in.ctx.Const(64, ptrAddr(ptrOf(in, in.rvMust(args[0], "reflect.Value.Pointer"), "reflect.Value.Pointer")))
	})
	reg("Value.UnsafeAddr", func(in *Interp, fn *ssa.Function, args []Value) Value {
		r := in.rvMust(args[0], "reflect.Value.UnsafeAddr")
		if r.flag&rvAddr == 0 {
			in.gopanic("reflect.Value.UnsafeAddr of unaddressable value")
		}
		return in.ctx.Const(64, ptrAddr(r.p))
	})

	// ---- Value: reading ----
	reg("Value.Int", func(in *Interp, fn *ssa.Function, args []Value) Value {
		r := in.rvMust(args[0], "reflect.Value.Int")
		k, ok := scalarOf(r.t)
		if !ok || !k.signed || k.float {
			in.gopanic("reflect: call of reflect.Value.Int on " + r.t.String() + " Value")
		}
		return in.ctx.Sext(in.rvLoad(r).(*Term), 64)
	})
	reg("Value.Uint", func(in *Interp, fn *ssa.Function, args []Value) Value {
		r := in.rvMust(args[0], "reflect.Value.Uint")
		k, ok := scalarOf(r.t)
		if !ok || k.signed || k.float || k.isBool {
			in.gopanic("reflect: call of reflect.Value.Uint on " + r.t.String() + " Value")
		}
		return in.ctx.Zext(in.rvLoad(r).(*Term), 64)
	})
	reg("Value.Float", func(in *Interp, fn *ssa.Function, args []Value) Value {
		r := in.rvMust(args[0], "reflect.Value.Float")
		k, ok := scalarOf(r.t)
		if !ok || !k.float {
			in.gopanic("reflect: call of reflect.Value.Float on " + r.t.String() + " Value")
		}
		return in.convert(in.rvLoad(r), r.t.Underlying(), types.Typ[types.Float64])
	})
	reg("Value.Bool", func(in *Interp, fn *ssa.Function, args []Value) Value {
		r := in.rvMust(args[0], "reflect.Value.Bool")
		k, ok := scalarOf(r.t)
		if !ok || !k.isBool {
			in.gopanic("reflect: call of reflect.Value.Bool on " + r.t.String() + " Value")
		}
		return in.rvLoad(r)
	})
	reg("Value.String", func(in *Interp, fn *ssa.Function, args []Value) Value {
		r := in.rvOf(args[0])
		if !r.valid() {
			return in.constString("<invalid Value>")
		}
		if isString(r.t) {
			return in.rvLoad(r)
		}
		return in.constString("<" + types.TypeString(r.t, func(p *types.Package) string { return p.Name() }) + " Value>")
	})
	reg("Value.Bytes", func(in *Interp, fn *ssa.Function, args []Value) Value {
		r := in.rvMust(args[0], "reflect.Value.Bytes")
		switch u := r.t.Underlying().(type) {
		case *types.Slice:
			if k, ok := scalarOf(u.Elem()); ok && k.w == 8 && !k.signed {
				return in.rvLoad(r)
			}
		case *types.Array:
			if k, ok := scalarOf(u.Elem()); ok && k.w == 8 && !k.signed {
				if r.flag&rvAddr == 0 {
					in.gopanic("reflect.Value.Bytes of unaddressable byte array")
				}
				return SliceV{r.p, int(u.Len()), int(u.Len())}
			}
		}
		in.gopanic("reflect: call of reflect.Value.Bytes on " + r.t.String() + " Value")
		return nil
	})
	reg("Value.Interface", func(in *Interp, fn *ssa.Function, args []Value) Value {
		r := in.rvMust(args[0], "reflect.Value.Interface")
		if ro(r.flag) != 0 {
			in.gopanic("reflect.Value.Interface: cannot return value obtained from unexported field or method")
		}
		return in.rvInterface(r)
	})
	reg("Value.Convert", func(in *Interp, fn *ssa.Function, args []Value) Value {
		r := in.rvMust(args[0], "reflect.Value.Convert")
		to := in.rtypeFromIface(args[1])
		if types.IsInterface(to) {
			return in.rvFresh(to, in.rvAssignTo(r, to, "Value.Convert"), ro(r.flag))
		}
		if !types.ConvertibleTo(r.t, to) {
			in.gopanic("reflect.Value.Convert: value of type " + r.t.String() + " cannot be converted to type " + to.String())
		}
		return in.rvFresh(to, in.convert(in.rvLoad(r), r.t, to), ro(r.flag))
	})

	// ---- Value: writing ----
	reg("Value.Set", func(in *Interp, fn *ssa.Function, args []Value) Value {
		r := in.rvMust(args[0], "reflect.Value.Set")
		in.rvMustSet(r, "reflect.Value.Set")
		x := in.rvOf(args[1])
		in.store(r.p, r.t, in.rvAssignTo(x, r.t, "Set"))
		return nil
	})
	reg("Value.SetZero", func(in *Interp, fn *ssa.Function, args []Value) Value {
		r := in.rvMust(args[0], "reflect.Value.SetZero")
		in.rvMustSet(r, "reflect.Value.SetZero")
		in.store(r.p, r.t, in.zero(r.t))
		return nil
	})
	setScalar := func(name string, pred func(k scalarKind) bool) {
		reg("Value."+name, func(in *Interp, fn *ssa.Function, args []Value) Value {
			r := in.rvMust(args[0], "reflect.Value."+name)
			in.rvMustSet(r, "reflect.Value."+name)
			k, ok := scalarOf(r.t)
			if !ok || !pred(k) {
				in.gopanic("reflect: call of reflect.Value." + name + " on " + r.t.String() + " Value")
			}
			x := args[1].(*Term)
			switch {
			case k.isBool:
				in.store(r.p, r.t, x)
			case k.float:
				in.store(r.p, r.t, in.convert(x, types.Typ[types.Float64], r.t.Underlying()))
			default:
				if k.w < 64 {
					x = in.ctx.Extract(x, k.w-1, 0)
				}
				in.store(r.p, r.t, x)
			}
			return nil
		})
	}
	setScalar("SetInt", func(k scalarKind) bool { return k.signed && !k.float && !k.isBool })
	setScalar("SetUint", func(k scalarKind) bool { return !k.signed && !k.float && !k.isBool })
	setScalar("SetFloat", func(k scalarKind) bool { return k.float })
	setScalar("SetBool", func(k scalarKind) bool { return k.isBool })
	reg("Value.SetString", func(in *Interp, fn *ssa.Function, args []Value) Value {
		r := in.rvMust(args[0], "reflect.Value.SetString")
		in.rvMustSet(r, "reflect.Value.SetString")
		if !isString(r.t) {
			in.gopanic("reflect: call of reflect.Value.SetString on " + r.t.String() + " Value")
		}
		in.store(r.p, r.t, args[1])
		return nil
	})
	reg("Value.SetBytes", func(in *Interp, fn *ssa.Function, args []Value) Value {
		r := in.rvMust(args[0], "reflect.Value.SetBytes")
		in.rvMustSet(r, "reflect.Value.SetBytes")
		if st, ok := r.t.Underlying().(*types.Slice); !ok || sizeof(st.Elem()) != 1 {
			in.gopanic("reflect: call of reflect.Value.SetBytes on " + r.t.String() + " Value")
		}
		in.store(r.p, r.t, args[1])
		return nil
	})
	reg("Value.SetLen", func(in *Interp, fn *ssa.Function, args []Value) Value {
		r := in.rvMust(args[0], "reflect.Value.SetLen")
		in.rvMustSet(r, "reflect.Value.SetLen")
		if _, ok := r.t.Underlying().(*types.Slice); !ok {
			in.gopanic("reflect: call of reflect.Value.SetLen on " + r.t.String() + " Value")
		}
		s := in.rvLoad(r).(SliceV)
		n := in.concInt(args[1], "reflect.Value.SetLen")
		if n < 0 || n > s.Cap {
			in.gopanic("reflect: slice length out of range in SetLen")
		}
		s.Len = n
		in.store(r.p, r.t, s)
		return nil
	})
	reg("Value.SetPointer", func(in *Interp, fn *ssa.Function, args []Value) Value {
		r := in.rvMust(args[0], "reflect.Value.SetPointer")
		in.rvMustSet(r, "reflect.Value.SetPointer")
		in.store(r.p, r.t, args[1])
		return nil
	})
	reg("Value.Grow", func(in *Interp, fn *ssa.Function, args []Value) Value {
		r := in.rvMust(args[0], "reflect.Value.Grow")
		in.rvMustSet(r, "reflect.Value.Grow")
		st, ok := r.t.Underlying().(*types.Slice)
		if !ok {
			in.gopanic("reflect: call of reflect.Value.Grow on " + r.t.String() + " Value")
		}
		n := in.concInt(args[1], "reflect.Value.Grow")
		if n < 0 {
			in.gopanic("reflect.Value.Grow: negative len")
		}
		s := in.rvLoad(r).(SliceV)
		if s.Len+n > s.Cap {
			nc := 2 * s.Cap
			if nc < s.Len+n {
				nc = s.Len + n
			}
			es := sizeof(st.Elem())
			p := in.newObject(nc*es, st.Elem(), "reflect.Grow")
			if s.Len > 0 {
				in.memmove(p, s.P, s.Len*es)
			}
			in.store(r.p, r.t, SliceV{p, s.Len, nc})
		}
		return nil
	})
	reg("Value.Slice", func(in *Interp, fn *ssa.Function, args []Value) Value {
		r := in.rvMust(args[0], "reflect.Value.Slice")
		i, j := in.concInt(args[1], "reflect.Value.Slice"), in.concInt(args[2], "reflect.Value.Slice")
		switch u := r.t.Underlying().(type) {
		case *types.Slice:
			s := in.rvLoad(r).(SliceV)
			if i < 0 || j < i || j > s.Cap {
				in.gopanic("reflect.Value.Slice: slice index out of bounds")
			}
			es := sizeof(u.Elem())
			return in.rvFresh(r.t, SliceV{Ptr{s.P.ID, s.P.Off + i*es}, j - i, s.Cap - i}, ro(r.flag))
		case *types.Array:
			if r.flag&rvAddr == 0 {
				in.gopanic("reflect.Value.Slice: slice of unaddressable array")
			}
			n := int(u.Len())
			if i < 0 || j < i || j > n {
				in.gopanic("reflect.Value.Slice: slice index out of bounds")
			}
			es := sizeof(u.Elem())
			return in.rvFresh(types.NewSlice(u.Elem()), SliceV{Ptr{r.p.ID, r.p.Off + i*es}, j - i, n - i}, ro(r.flag))
		case *types.Basic:
			if isString(r.t) {
				s := in.rvLoad(r).(StrV)
				if i < 0 || j < i || j > s.Len {
					in.gopanic("reflect.Value.Slice: string slice index out of bounds")
				}
				return in.rvFresh(r.t, StrV{Ptr{s.P.ID, s.P.Off + i}, j - i}, ro(r.flag))
			}
		}
		in.gopanic("reflect: call of reflect.Value.Slice on " + r.t.String() + " Value")
		return nil
	})
	reg("Append", func(in *Interp, fn *ssa.Function, args []Value) Value {
		r := in.rvMust(args[0], "reflect.Append")
		st, ok := r.t.Underlying().(*types.Slice)
		if !ok {
			in.gopanic("reflect.Append of non-slice")
		}
		xs := args[1].(SliceV)
		s := in.rvLoad(r).(SliceV)
		es := sizeof(st.Elem())
		rvT := in.reflectNamed("Value")
		if s.Len+xs.Len > s.Cap {
			nc := 2 * s.Cap
			if nc < s.Len+xs.Len {
				nc = s.Len + xs.Len
			}
			p := in.newObject(nc*es, st.Elem(), "reflect.Append")
			if s.Len > 0 {
				in.memmove(p, s.P, s.Len*es)
			}
			s = SliceV{p, s.Len, nc}
		}
		for k := 0; k < xs.Len; k++ {
			x := in.rvOf(in.load(Ptr{xs.P.ID, xs.P.Off + k*sizeof(rvT)}, rvT))
			in.store(Ptr{s.P.ID, s.P.Off + (s.Len+k)*es}, st.Elem(), in.rvAssignTo(x, st.Elem(), "Append"))
		}
		s.Len += xs.Len
		return in.rvFresh(r.t, s, 0)
	})
	reg("Swapper", func(in *Interp, fn *ssa.Function, args []Value) Value {
		iv := args[0].(*IfaceV)
		if iv == nil || iv.T == nil {
			in.gopanic("reflect: call of Swapper on zero Value")
		}
		st, ok := iv.T.Underlying().(*types.Slice)
		if !ok {
			in.gopanic("reflect: call of Swapper on " + iv.T.String() + " Value")
		}
		s := iv.V.(SliceV)
		es := sizeof(st.Elem())
		return &FuncV{N: func(in *Interp, a []Value) Value {
			i, j := in.concInt(a[0], "reflect.Swapper"), in.concInt(a[1], "reflect.Swapper")
			if i < 0 || j < 0 || i >= s.Len || j >= s.Len {
				in.gopanic("reflect: slice index out of range")
			}
			if i != j && es > 0 {
				tmp := in.newObject(es, st.Elem(), "reflect.Swapper.tmp")
				pi, pj := Ptr{s.P.ID, s.P.Off + i*es}, Ptr{s.P.ID, s.P.Off + j*es}
				in.memmove(tmp, pi, es)
				in.memmove(pi, pj, es)
				in.memmove(pj, tmp, es)
			}
			return nil
		}}
	})
	reg("Copy", func(in *Interp, fn *ssa.Function, args []Value) Value {
		d, s := in.rvMust(args[0], "reflect.Copy"), in.rvMust(args[1], "reflect.Copy")
		var dp, sp Ptr
		var dn, sn, es int
		switch u := d.t.Underlying().(type) {
		case *types.Slice:
			x := in.rvLoad(d).(SliceV)
			dp, dn, es = x.P, x.Len, sizeof(u.Elem())
		case *types.Array:
			dp, dn, es = d.p, int(u.Len()), sizeof(u.Elem())
		default:
			in.gopanic("reflect.Copy: bad destination")
		}
		switch u := s.t.Underlying().(type) {
		case *types.Slice:
			x := in.rvLoad(s).(SliceV)
			sp, sn = x.P, x.Len
		case *types.Array:
			sp, sn = s.p, int(u.Len())
		case *types.Basic:
			x := in.rvLoad(s).(StrV)
			sp, sn = x.P, x.Len
		default:
			in.gopanic("reflect.Copy: bad source")
		}
		n := dn
		if sn < n {
			n = sn
		}
		if n > 0 {
			in.memmove(dp, sp, n*es)
		}
		return in.ctx.Const(64, uint64(n))
	})

	// ---- maps ----
	mapKeyFor := func(in *Interp, mt *types.Map, k rval) Value {
		return in.rvAssignTo(k, mt.Key(), "map key")
	}
	reg("Value.MapIndex", func(in *Interp, fn *ssa.Function, args []Value) Value {
		r := in.rvMust(args[0], "reflect.Value.MapIndex")
		mt, ok := r.t.Underlying().(*types.Map)
		if !ok {
			in.gopanic("reflect: call of reflect.Value.MapIndex on " + r.t.String() + " Value")
		}
		v, found := in.mapGet(in.rvLoad(r).(MapV), mapKeyFor(in, mt, in.rvOf(args[1])))
		if !found {
			return in.rvMake(nil, Ptr{}, 0)
		}
		return in.rvFresh(mt.Elem(), v, ro(r.flag))
	})
	reg("Value.SetMapIndex", func(in *Interp, fn *ssa.Function, args []Value) Value {
		r := in.rvMust(args[0], "reflect.Value.SetMapIndex")
		mt, ok := r.t.Underlying().(*types.Map)
		if !ok {
			in.gopanic("reflect: call of reflect.Value.SetMapIndex on " + r.t.String() + " Value")
		}
		m := in.rvLoad(r).(MapV)
		k := mapKeyFor(in, mt, in.rvOf(args[1]))
		e := in.rvOf(args[2])
		if !e.valid() {
			in.mapDelete(m, k)
			return nil
		}
		in.mapUpdate(m, k, in.rvAssignTo(e, mt.Elem(), "SetMapIndex"))
		return nil
	})
	newIter := func(in *Interp, r rval) *reflMapIter {
		mt, ok := r.t.Underlying().(*types.Map)
		if !ok {
			in.gopanic("reflect: map iteration on " + r.t.String() + " Value")
		}
		m := in.rvLoad(r).(MapV)
		it := &reflMapIter{m: m, mt: mt, i: -1, ro: ro(r.flag)}
		if m.H != 0 {
			o := in.mapObj(m.H, false)
			it.keys = append([]string(nil), o.keys...)
			for _, k := range it.keys {
				it.kv = append(it.kv, o.kvals[k])
			}
		}
		return it
	}
	reg("Value.MapKeys", func(in *Interp, fn *ssa.Function, args []Value) Value {
		r := in.rvMust(args[0], "reflect.Value.MapKeys")
		it := newIter(in, r)
		rvT := in.reflectNamed("Value")
		sz := sizeof(rvT)
		p := in.newObject(len(it.kv)*sz, rvT, "reflect.MapKeys")
		for i, k := range it.kv {
			in.store(Ptr{p.ID, i * sz}, rvT, in.rvFresh(it.mt.Key(), k, it.ro))
		}
		return SliceV{p, len(it.kv), len(it.kv)}
	})
	reg("Value.MapRange", func(in *Interp, fn *ssa.Function, args []Value) Value {
		r := in.rvMust(args[0], "reflect.Value.MapRange")
		it := newIter(in, r)
		mit := in.reflectNamed("MapIter")
		p := in.newObject(sizeof(mit), mit, "reflect.MapIter")
		in.reflIters[p.ID] = it
		return p
	})
	iterOf := func(in *Interp, v Value) *reflMapIter {
		p := v.(Ptr)
		it := in.reflIters[p.ID]
		if it == nil {
			in.fail("reflect.MapIter not created by MapRange")
		}
		return it
	}
	reg("MapIter.Next", func(in *Interp, fn *ssa.Function, args []Value) Value {
		it := iterOf(in, args[0])
		for it.i+1 < len(it.keys) {
			it.i++
			if it.m.H != 0 {
				if _, ok := in.mapObj(it.m.H, false).vals[it.keys[it.i]]; ok {
					return in.ctx.Bool(true)
				}
			}
		}
		it.i = len(it.keys)
		return in.ctx.Bool(false)
	})
	curKey := func(in *Interp, it *reflMapIter) Value {
		if it.i < 0 || it.i >= len(it.keys) {
			in.gopanic("MapIter.Key called before Next or after exhaustion")
		}
		return it.kv[it.i]
	}
	curVal := func(in *Interp, it *reflMapIter) Value {
		if it.i < 0 || it.i >= len(it.keys) {
			in.gopanic("MapIter.Value called before Next or after exhaustion")
		}
		return in.mapObj(it.m.H, false).vals[it.keys[it.i]]
	}
	reg("MapIter.Key", func(in *Interp, fn *ssa.Function, args []Value) Value {
		it := iterOf(in, args[0])
		return in.rvFresh(it.mt.Key(), curKey(in, it), it.ro)
	})
	reg("MapIter.Value", func(in *Interp, fn *ssa.Function, args []Value) Value {
		it := iterOf(in, args[0])
		return in.rvFresh(it.mt.Elem(), curVal(in, it), it.ro)
	})
	reg("Value.SetIterKey", func(in *Interp, fn *ssa.Function, args []Value) Value {
		r := in.rvMust(args[0], "reflect.Value.SetIterKey")
		in.rvMustSet(r, "reflect.Value.SetIterKey")
		it := iterOf(in, args[1])
		x := in.rvOf(in.rvFresh(it.mt.Key(), curKey(in, it), 0))
		in.store(r.p, r.t, in.rvAssignTo(x, r.t, "SetIterKey"))
		return nil
	})
	reg("Value.SetIterValue", func(in *Interp, fn *ssa.Function, args []Value) Value {
		r := in.rvMust(args[0], "reflect.Value.SetIterValue")
		in.rvMustSet(r, "reflect.Value.SetIterValue")
		it := iterOf(in, args[1])
		x := in.rvOf(in.rvFresh(it.mt.Elem(), curVal(in, it), 0))
		in.store(r.p, r.t, in.rvAssignTo(x, r.t, "SetIterValue"))
		return nil
	})
}

package main

import (
	"fmt"
	"go/token"
	"go/types"
	"math"
	"unicode/utf8"

	"golang.org/x/tools/go/ssa"
)

func (in *Interp) exec(fr *frame, ins ssa.Instruction) {
	switch x := ins.(type) {
	case *ssa.Alloc:
		et := x.Type().(*types.Pointer).Elem()
		if in.pureMode {
			panic(ifConvAbort{})
		}
		in.set(fr, x, in.newObject(sizeof(et), et, "alloc"))
	case *ssa.BinOp:
		in.set(fr, x, in.binop(x.Op, x.X.Type(), in.get(fr, x.X), in.get(fr, x.Y), x.Y.Type()))
	case *ssa.UnOp:
		in.set(fr, x, in.unop(fr, x))
	case *ssa.Call:
		if in.pureMode {
			panic(ifConvAbort{})
		}
		f, args, _ := in.doCall(fr, &x.Call)
		r := in.callValue(f, args, &x.Call)
		in.set(fr, x, r)
	case *ssa.ChangeInterface:
		in.set(fr, x, in.get(fr, x.X))
	case *ssa.ChangeType:
		in.set(fr, x, in.get(fr, x.X))
	case *ssa.Convert:
		in.set(fr, x, in.convert(in.get(fr, x.X), x.X.Type(), x.Type()))
	case *ssa.MultiConvert:
		in.set(fr, x, in.convert(in.get(fr, x.X), x.X.Type(), x.Type()))
	case *ssa.SliceToArrayPointer:
		s := in.get(fr, x.X).(SliceV)
		n := int(x.Type().(*types.Pointer).Elem().Underlying().(*types.Array).Len())
		if s.Len < n {
			in.gopanic("slice to array pointer: slice too short")
		}
		if s.P.ID == 0 && n == 0 {
			in.set(fr, x, Ptr{})
		} else {
			in.set(fr, x, s.P)
		}
	case *ssa.Extract:
		in.set(fr, x, in.get(fr, x.Tuple).(TupleV)[x.Index])
	case *ssa.Field:
		in.set(fr, x, in.get(fr, x.X).(*StructV).F[x.Field])
	case *ssa.FieldAddr:
		p := in.get(fr, x.X).(Ptr)
		if p.ID == 0 {
			in.gopanic("nil pointer dereference")
		}
		st := x.X.Type().Underlying().(*types.Pointer).Elem().Underlying().(*types.Struct)
		in.set(fr, x, Ptr{p.ID, p.Off + int(fieldOffsets(st)[x.Field])})
	case *ssa.Index:
		in.set(fr, x, in.indexValue(fr, x))
	case *ssa.IndexAddr:
		in.set(fr, x, in.indexAddr(fr, x))
	case *ssa.Lookup:
		in.set(fr, x, in.lookup(fr, x))
	case *ssa.MakeClosure:
		fn := x.Fn.(*ssa.Function)
		b := make([]Value, len(x.Bindings))
		for i, v := range x.Bindings {
			b[i] = in.get(fr, v)
		}
		in.set(fr, x, &FuncV{Fn: fn, Bind: b})
	case *ssa.MakeInterface:
		in.set(fr, x, &IfaceV{T: x.X.Type(), V: in.get(fr, x.X)})
	case *ssa.MakeMap:
		in.nextMap++
		mt := x.Type().Underlying().(*types.Map)
		in.maps[in.nextMap] = &MapObj{kvals: map[string]Value{}, vals: map[string]Value{}, kt: mt.Key(), vt: mt.Elem()}
		in.set(fr, x, MapV{in.nextMap})
	case *ssa.MakeChan:
		in.nextMap++
		c := int(in.concretize(in.get(fr, x.Size).(*Term), "chan size"))
		in.chans[in.nextMap] = &ChanObj{cap: c}
		in.set(fr, x, ChanV{in.nextMap})
	case *ssa.MakeSlice:
		l := int(in.concretize(in.get(fr, x.Len).(*Term), "make len"))
		c := int(in.concretize(in.get(fr, x.Cap).(*Term), "make cap"))
		if l < 0 || c < l {
			in.gopanic("makeslice: len out of range")
		}
		et := x.Type().Underlying().(*types.Slice).Elem()
		p := in.newObject(c*sizeof(et), et, "makeslice")
		in.set(fr, x, SliceV{p, l, c})
	case *ssa.MapUpdate:
		in.mapUpdate(in.get(fr, x.Map).(MapV), in.get(fr, x.Key), in.get(fr, x.Value))
	case *ssa.Next:
		in.set(fr, x, in.next(fr, x))
	case *ssa.Range:
		in.set(fr, x, in.mkRange(fr, x))
	case *ssa.Slice:
		in.set(fr, x, in.slice(fr, x))
	case *ssa.Store:
		if in.pureMode {
			panic(ifConvAbort{})
		}
		p := in.get(fr, x.Addr).(Ptr)
		if p.ID == 0 {
			in.gopanic("nil pointer dereference")
		}
		var v Value
		if in.tolerant > 0 {
			v = in.getRaw(fr, x.Val)
		} else {
			v = in.get(fr, x.Val)
		}
		in.store(p, x.Val.Type(), v)
	case *ssa.TypeAssert:
		in.set(fr, x, in.typeAssert(fr, x))
	case *ssa.Defer:
		f, args, _ := in.doCall(fr, &x.Call)
		fr.defers = append(fr.defers, deferred{fn: f, args: args, call: &x.Call})
	case *ssa.RunDefers:
		in.runDefers(fr)
	case *ssa.DebugRef:
	case *ssa.Go:
		in.fail("go statement (goroutines are not modelled)")
	case *ssa.Send:
		ch := in.get(fr, x.Chan).(ChanV)
		if ch.H == 0 {
			in.fail("send on nil channel blocks forever")
		}
		c := in.chans[ch.H]
		if c.closed {
			in.gopanic("send on closed channel")
		}
		if len(c.buf) >= c.cap {
			in.fail("send would block (sequential model)")
		}
		c.buf = append(c.buf, in.get(fr, x.X))
	case *ssa.Select:
		in.fail("select (goroutines are not modelled)")
	default:
		in.fail("unsupported instruction %T", ins)
	}
}

func (in *Interp) getRaw(fr *frame, v ssa.Value) Value {
	if i, ok := fr.info.idx[v]; ok {
		return fr.regs[i]
	}
	return in.get(fr, v)
}

// ---------- unary ----------

func (in *Interp) unop(fr *frame, x *ssa.UnOp) Value {
	v := in.get(fr, x.X)
	switch x.Op {
	case token.MUL:
		p := v.(Ptr)
		if p.ID == 0 {
			in.gopanic("nil pointer dereference")
		}
		if why, bad := in.poisoned[p.ID]; bad {
			in.fail("read of poisoned object: %s", why)
		}
		if in.base != nil {
			if why, bad := in.base.poisoned[p.ID]; bad {
				if _, over := in.objs[p.ID]; !over {
					in.fail("read of poisoned object: %s", why)
				}
			}
		}
		return in.load(p, x.Type())
	case token.NOT:
		return in.ctx.Not(v.(*Term))
	case token.SUB:
		t := v.(*Term)
		k, _ := scalarOf(x.Type())
		if k.float {
			if t.IsConst() {
				if k.w == 32 {
					return in.ctx.Const(32, uint64(math.Float32bits(-f32(t.val))))
				}
				return in.ctx.Const(64, math.Float64bits(-f64(t.val)))
			}
			// sign flip on the bit pattern (exact for IEEE negation)
			return in.ctx.BvXor(t, in.ctx.Const(k.w, uint64(1)<<(k.w-1)))
		}
		return in.ctx.Neg(t)
	case token.XOR:
		return in.ctx.BvNot(v.(*Term))
	case token.ARROW:
		ch := v.(ChanV)
		if ch.H == 0 {
			in.fail("receive on nil channel blocks forever")
		}
		c := in.chans[ch.H]
		et := x.X.Type().Underlying().(*types.Chan).Elem()
		var val Value
		okv := true
		if len(c.buf) > 0 {
			val = c.buf[0]
			c.buf = c.buf[1:]
		} else if c.closed {
			val = in.zero(et)
			okv = false
		} else {
			in.fail("receive would block (sequential model)")
		}
		if x.CommaOk {
			return TupleV{val, in.ctx.Bool(okv)}
		}
		return val
	}
	in.fail("unop %s", x.Op)
	return nil
}

// ---------- binary ----------

func (in *Interp) binop(op token.Token, xt types.Type, a, b Value, yt types.Type) Value {
	c := in.ctx
	switch xa := a.(type) {
	case *Term:
		k, ok := scalarOf(xt)
		if !ok {
			in.fail("binop on %s", xt)
		}
		y := b.(*Term)
		if k.float {
			return in.floatOp(op, k, xa, y)
		}
		if k.isBool {
			switch op {
			case token.EQL:
				return c.Eq(xa, y)
			case token.NEQ:
				return c.Not(c.Eq(xa, y))
			case token.AND:
				return c.And(xa, y)
			case token.OR:
				return c.Or(xa, y)
			}
			in.fail("bool binop %s", op)
		}
		switch op {
		case token.ADD:
			return c.Add(xa, y)
		case token.SUB:
			return c.Sub(xa, y)
		case token.MUL:
			return c.Mul(xa, y)
		case token.QUO, token.REM:
			if !in.branch(c.Not(c.Eq(y, c.Const(y.w, 0)))) {
				in.gopanic("integer divide by zero")
			}
			if k.signed {
				if op == token.QUO {
					return c.SDiv(xa, y)
				}
				return c.SRem(xa, y)
			}
			if op == token.QUO {
				return c.UDiv(xa, y)
			}
			return c.URem(xa, y)
		case token.AND:
			return c.BvAnd(xa, y)
		case token.OR:
			return c.BvOr(xa, y)
		case token.XOR:
			return c.BvXor(xa, y)
		case token.AND_NOT:
			return c.BvAnd(xa, c.BvNot(y))
		case token.SHL, token.SHR:
			return in.shift(op, k, xa, y, yt)
		case token.EQL:
			return c.Eq(xa, y)
		case token.NEQ:
			return c.Not(c.Eq(xa, y))
		case token.LSS:
			if k.signed {
				return c.Slt(xa, y)
			}
			return c.Ult(xa, y)
		case token.LEQ:
			if k.signed {
				return c.Sle(xa, y)
			}
			return c.Ule(xa, y)
		case token.GTR:
			if k.signed {
				return c.Slt(y, xa)
			}
			return c.Ult(y, xa)
		case token.GEQ:
			if k.signed {
				return c.Sle(y, xa)
			}
			return c.Ule(y, xa)
		}
	case StrV:
		y := b.(StrV)
		switch op {
		case token.ADD:
			return in.concatStr(xa, y)
		case token.EQL:
			return in.strEq(xa, y)
		case token.NEQ:
			return c.Not(in.strEq(xa, y))
		case token.LSS:
			return in.strLess(xa, y, false)
		case token.LEQ:
			return in.strLess(xa, y, true)
		case token.GTR:
			return in.strLess(y, xa, false)
		case token.GEQ:
			return in.strLess(y, xa, true)
		}
	default:
		switch op {
		case token.EQL:
			return in.equal(xt, a, b)
		case token.NEQ:
			return c.Not(in.equal(xt, a, b))
		}
	}
	in.fail("binop %s on %s", op, xt)
	return nil
}

func (in *Interp) shift(op token.Token, k scalarKind, x, y *Term, yt types.Type) *Term {
	c := in.ctx
	yk, _ := scalarOf(yt)
	if yk.signed {
		if !in.branch(c.Sle(c.Const(y.w, 0), y)) {
			in.gopanic("negative shift amount")
		}
	}
	// bring the count to x's width, remembering overflow
	var over *Term
	var cnt *Term
	if y.w > x.w {
		over = c.Ule(c.Const(y.w, uint64(x.w)), y)
		cnt = c.Extract(y, x.w-1, 0)
	} else {
		cnt = c.Zext(y, x.w)
		over = c.Ule(c.Const(x.w, uint64(x.w)), cnt)
	}
	var in0, res *Term
	switch {
	case op == token.SHL:
		in0, res = c.Const(x.w, 0), c.Shl(x, cnt)
	case k.signed:
		in0, res = c.Ashr(x, c.Const(x.w, uint64(x.w)-1)), c.Ashr(x, cnt)
	default:
		in0, res = c.Const(x.w, 0), c.Lshr(x, cnt)
	}
	if over.IsConst() {
		if over.val == 1 {
			return in0
		}
		return res
	}
	return c.Ite(over, in0, res)
}

func (in *Interp) floatOp(op token.Token, k scalarKind, a, b *Term) Value {
	c := in.ctx
	switch op {
	case token.EQL:
		return c.FCmp(OpFEq, a, b)
	case token.NEQ:
		return c.Not(c.FCmp(OpFEq, a, b))
	case token.LSS:
		return c.FCmp(OpFLt, a, b)
	case token.LEQ:
		return c.FCmp(OpFLe, a, b)
	case token.GTR:
		return c.FCmp(OpFLt, b, a)
	case token.GEQ:
		return c.FCmp(OpFLe, b, a)
	}
	if a.IsConst() && b.IsConst() {
		if k.w == 32 {
			x, y := f32(a.val), f32(b.val)
			var r float32
			switch op {
			case token.ADD:
				r = x + y
			case token.SUB:
				r = x - y
			case token.MUL:
				r = x * y
			case token.QUO:
				r = x / y
			default:
				in.fail("float op %s", op)
			}
			return c.Const(32, uint64(math.Float32bits(r)))
		}
		x, y := f64(a.val), f64(b.val)
		var r float64
		switch op {
		case token.ADD:
			r = x + y
		case token.SUB:
			r = x - y
		case token.MUL:
			r = x * y
		case token.QUO:
			r = x / y
		default:
			in.fail("float op %s", op)
		}
		return c.Const(64, math.Float64bits(r))
	}
	var code uint64
	switch op {
	case token.ADD:
		code = '+'
	case token.SUB:
		code = '-'
	case token.MUL:
		code = '*'
	case token.QUO:
		code = '/'
	default:
		in.fail("float op %s", op)
	}
	return c.mk(OpFArith, k.w, a, b, nil, code)
}

func (in *Interp) strEq(a, b StrV) *Term {
	if a.Len != b.Len {
		return in.ctx.Bool(false)
	}
	return in.bytesEq(a.P, b.P, a.Len)
}

func (in *Interp) bytesEq(p, q Ptr, n int) *Term {
	c := in.ctx
	if n == 0 || p == q {
		return c.Bool(true)
	}
	x, y := in.bytesOf(p, n), in.bytesOf(q, n)
	r := c.Bool(true)
	for i := 0; i < n; i++ {
		r = c.And(r, c.Eq(x[i], y[i]))
		if r.IsFalse() {
			return r
		}
	}
	return r
}

// bytesCmp returns a 64-bit term in {-1,0,1}.
func (in *Interp) bytesCmp(p Ptr, n int, q Ptr, m int) *Term {
	c := in.ctx
	x, y := in.bytesOf(p, n), in.bytesOf(q, m)
	var tail int64
	switch {
	case n < m:
		tail = -1
	case n > m:
		tail = 1
	}
	r := c.Const(64, uint64(tail))
	k := n
	if m < k {
		k = m
	}
	for i := k - 1; i >= 0; i-- {
		lt := c.Ult(x[i], y[i])
		eq := c.Eq(x[i], y[i])
		r = c.Ite(eq, r, c.Ite(lt, c.Const(64, ^uint64(0)), c.Const(64, 1)))
	}
	return r
}

func (in *Interp) strLess(a, b StrV, orEq bool) *Term {
	cmp := in.bytesCmp(a.P, a.Len, b.P, b.Len)
	if orEq {
		return in.ctx.Sle(cmp, in.ctx.Const(64, 0))
	}
	return in.ctx.Slt(cmp, in.ctx.Const(64, 0))
}

func (in *Interp) concatStr(a, b StrV) StrV {
	if a.Len == 0 {
		return b
	}
	if b.Len == 0 {
		return a
	}
	p := in.newObject(a.Len+b.Len, types.Typ[types.Uint8], "strcat")
	in.memmove(p, a.P, a.Len)
	in.memmove(Ptr{p.ID, a.Len}, b.P, b.Len)
	return StrV{p, a.Len + b.Len}
}

// equal implements == for non-scalar comparable values.
func (in *Interp) equal(t types.Type, a, b Value) *Term {
	c := in.ctx
	switch x := a.(type) {
	case nil:
		return c.Bool(b == nil)
	case *Term:
		k, _ := scalarOf(t)
		if k.float {
			return c.FCmp(OpFEq, x, b.(*Term))
		}
		return c.Eq(x, b.(*Term))
	case Ptr:
		return c.Bool(ptrAddr(x) == ptrAddr(b.(Ptr)))
	case StrV:
		return in.strEq(x, b.(StrV))
	case SliceV:
		y := b.(SliceV)
		// only comparison with nil is legal
		if y.P.ID == 0 && y.Len == 0 && y.Cap == 0 {
			return c.Bool(x.P.ID == 0)
		}
		if x.P.ID == 0 && x.Len == 0 && x.Cap == 0 {
			return c.Bool(y.P.ID == 0)
		}
		in.fail("slice comparison")
	case MapV:
		return c.Bool(x.H == b.(MapV).H)
	case ChanV:
		return c.Bool(x.H == b.(ChanV).H)
	case *FuncV:
		y := b.(*FuncV)
		xn := x == nil || (x.Fn == nil && x.B == nil && x.N == nil)
		yn := y == nil || (y.Fn == nil && y.B == nil && y.N == nil)
		if xn || yn {
			return c.Bool(xn && yn)
		}
		in.fail("func comparison")
	case *IfaceV:
		y := b.(*IfaceV)
		xn := x == nil || x.T == nil
		yn := y == nil || y.T == nil
		if xn || yn {
			return c.Bool(xn && yn)
		}
		if !types.Identical(x.T, y.T) {
			return c.Bool(false)
		}
		if !types.Comparable(x.T) {
			in.gopanic("comparing uncomparable type " + x.T.String())
		}
		return in.equal(x.T, x.V, y.V)
	case *StructV:
		y := b.(*StructV)
		st := t.Underlying().(*types.Struct)
		r := c.Bool(true)
		for i := range x.F {
			r = c.And(r, in.equal(st.Field(i).Type(), x.F[i], y.F[i]))
		}
		return r
	case *ArrayV:
		y := b.(*ArrayV)
		et := t.Underlying().(*types.Array).Elem()
		r := c.Bool(true)
		for i := range x.E {
			r = c.And(r, in.equal(et, x.E[i], y.E[i]))
		}
		return r
	}
	in.fail("equality on %T", a)
	return nil
}

// ---------- conversions ----------

func (in *Interp) convert(v Value, from, to types.Type) Value {
	c := in.ctx
	fu, tu := from.Underlying(), to.Underlying()
	// pointer-ish
	if _, ok := tu.(*types.Pointer); ok {
		switch p := v.(type) {
		case Ptr:
			return p
		}
	}
	if isUnsafePointer(to) {
		switch p := v.(type) {
		case Ptr:
			return p
		case *Term: // uintptr -> unsafe.Pointer
			return addrPtr(uint64(in.concretize(p, "uintptr->pointer")))
		}
	}
	if isUnsafePointer(from) || isPointer(fu) {
		if k, ok := scalarOf(to); ok && !k.float {
			return c.Const(k.w, ptrAddr(v.(Ptr)))
		}
	}
	// string <-> bytes / runes
	if isString(to) {
		switch x := v.(type) {
		case StrV:
			return x
		case SliceV:
			et := fu.(*types.Slice).Elem().Underlying().(*types.Basic)
			if et.Kind() == types.Uint8 {
				if x.Len == 0 {
					return StrV{}
				}
				p := in.newObject(x.Len, types.Typ[types.Uint8], "bytes2str")
				in.memmove(p, x.P, x.Len)
				return StrV{p, x.Len}
			}
			// []rune -> string
			var buf []byte
			for i := 0; i < x.Len; i++ {
				r := in.loadBits(Ptr{x.P.ID, x.P.Off + 4*i}, 4)
				if !r.IsConst() {
					in.fail("symbolic rune to string")
				}
				buf = utf8.AppendRune(buf, rune(int32(r.val)))
			}
			return in.constString(string(buf))
		case *Term:
			if !x.IsConst() {
				in.fail("symbolic rune to string")
			}
			return in.constString(string(rune(signExt(x.val, x.w))))
		}
	}
	if isString(from) {
		if sl, ok := tu.(*types.Slice); ok {
			s := v.(StrV)
			et := sl.Elem().Underlying().(*types.Basic)
			if et.Kind() == types.Uint8 {
				p := in.newObject(s.Len, types.Typ[types.Uint8], "str2bytes")
				in.memmove(p, s.P, s.Len)
				return SliceV{p, s.Len, s.Len}
			}
			str := in.mustString(s)
			rs := []rune(str)
			p := in.newObject(4*len(rs), types.Typ[types.Int32], "str2runes")
			for i, r := range rs {
				in.storeBits(Ptr{p.ID, 4 * i}, 4, c.Const(32, uint64(uint32(r))))
			}
			return SliceV{p, len(rs), len(rs)}
		}
	}
	// slice -> array (Go 1.20) or array pointer
	if _, ok := tu.(*types.Array); ok {
		if s, ok := v.(SliceV); ok {
			n := int(tu.(*types.Array).Len())
			if s.Len < n {
				in.gopanic("slice to array: slice too short")
			}
			return in.load(s.P, to)
		}
	}
	fk, ok1 := scalarOf(from)
	tk, ok2 := scalarOf(to)
	if ok1 && ok2 {
		x := v.(*Term)
		switch {
		case !fk.float && !tk.float:
			if tk.isBool || fk.isBool {
				return x
			}
			return c.Resize(x, tk.w, fk.signed)
		case fk.float && tk.float:
			if fk.w == tk.w {
				return x
			}
			if x.IsConst() {
				if tk.w == 32 {
					return c.Const(32, uint64(math.Float32bits(float32(f64(x.val)))))
				}
				return c.Const(64, math.Float64bits(float64(f32(x.val))))
			}
			return c.mk(OpFToF, tk.w, x, nil, nil, 0)
		case fk.float: // float -> int
			if x.IsConst() {
				f := fval(x)
				if tk.signed {
					return c.Const(tk.w, uint64(int64(f)))
				}
				return c.Const(tk.w, uint64(f))
			}
			if tk.signed {
				return c.mk(OpFToSInt, tk.w, x, nil, nil, 0)
			}
			return c.mk(OpFToUInt, tk.w, x, nil, nil, 0)
		default: // int -> float
			if x.IsConst() {
				var f float64
				if fk.signed {
					f = float64(signExt(x.val, x.w))
				} else {
					f = float64(x.val)
				}
				if tk.w == 32 {
					var f3 float32
					if fk.signed {
						f3 = float32(signExt(x.val, x.w))
					} else {
						f3 = float32(x.val)
					}
					return c.Const(32, uint64(math.Float32bits(f3)))
				}
				return c.Const(64, math.Float64bits(f))
			}
			if fk.signed {
				return c.mk(OpSIntToF, tk.w, x, nil, nil, 0)
			}
			return c.mk(OpUIntToF, tk.w, x, nil, nil, 0)
		}
	}
	// identical underlying representations
	switch v.(type) {
	case SliceV, MapV, ChanV, *FuncV, *StructV, *ArrayV, Ptr, StrV:
		return v
	}
	in.fail("convert %s -> %s", from, to)
	return nil
}

func isPointer(t types.Type) bool {
	_, ok := t.(*types.Pointer)
	return ok
}

// ---------- indexing ----------

func (in *Interp) checkIndex(idx *Term, n int) int {
	c := in.ctx
	if idx.IsConst() {
		i := signExt(idx.val, idx.w)
		if i < 0 || i >= int64(n) {
			in.gopanic(fmt.Sprintf("index out of range [%d] with length %d", i, n))
		}
		return int(i)
	}
	i64 := idx
	if i64.w < 64 {
		i64 = c.Zext(idx, 64) // narrower index types are only used unsigned or after widening by ssa
	}
	if !in.branch(c.Ult(i64, c.Const(64, uint64(n)))) {
		in.gopanic(fmt.Sprintf("index out of range [symbolic] with length %d", n))
	}
	return int(in.concretize(i64, "index"))
}

func (in *Interp) indexTerm(fr *frame, v ssa.Value) *Term {
	t := in.get(fr, v).(*Term)
	k, _ := scalarOf(v.Type())
	if t.w < 64 {
		t = in.ctx.Resize(t, 64, k.signed)
	}
	return t
}

func (in *Interp) indexAddr(fr *frame, x *ssa.IndexAddr) Value {
	idx := in.indexTerm(fr, x.Index)
	switch xt := x.X.Type().Underlying().(type) {
	case *types.Slice:
		s := in.get(fr, x.X).(SliceV)
		i := in.checkIndex(idx, s.Len)
		return Ptr{s.P.ID, s.P.Off + i*sizeof(xt.Elem())}
	case *types.Pointer:
		at := xt.Elem().Underlying().(*types.Array)
		p := in.get(fr, x.X).(Ptr)
		if p.ID == 0 {
			in.gopanic("nil pointer dereference")
		}
		i := in.checkIndex(idx, int(at.Len()))
		return Ptr{p.ID, p.Off + i*sizeof(at.Elem())}
	}
	in.fail("IndexAddr on %s", x.X.Type())
	return nil
}

func (in *Interp) indexValue(fr *frame, x *ssa.Index) Value {
	idx := in.indexTerm(fr, x.Index)
	switch v := in.get(fr, x.X).(type) {
	case *ArrayV:
		if !idx.IsConst() && len(v.E) <= 64 {
			// ite chain over scalar elements
			if _, ok := v.E[0].(*Term); ok {
				c := in.ctx
				if !in.branch(c.Ult(idx, c.Const(64, uint64(len(v.E))))) {
					in.gopanic("index out of range")
				}
				r := v.E[len(v.E)-1].(*Term)
				for i := len(v.E) - 2; i >= 0; i-- {
					r = c.Ite(c.Eq(idx, c.Const(64, uint64(i))), v.E[i].(*Term), r)
				}
				return r
			}
		}
		return v.E[in.checkIndex(idx, len(v.E))]
	case StrV:
		i := in.checkIndex(idx, v.Len)
		return in.loadBits(Ptr{v.P.ID, v.P.Off + i}, 1)
	}
	in.fail("Index on %s", x.X.Type())
	return nil
}

func (in *Interp) lookup(fr *frame, x *ssa.Lookup) Value {
	switch v := in.get(fr, x.X).(type) {
	case StrV:
		idx := in.indexTerm(fr, x.Index)
		if !idx.IsConst() && v.Len <= 256 && v.Len > 0 {
			// constant table lookup with symbolic index: ite chain
			c := in.ctx
			if !in.branch(c.Ult(idx, c.Const(64, uint64(v.Len)))) {
				in.gopanic("index out of range")
			}
			bs := in.bytesOf(v.P, v.Len)
			r := bs[v.Len-1]
			for i := v.Len - 2; i >= 0; i-- {
				r = c.Ite(c.Eq(idx, c.Const(64, uint64(i))), bs[i], r)
			}
			return r
		}
		i := in.checkIndex(idx, v.Len)
		return in.loadBits(Ptr{v.P.ID, v.P.Off + i}, 1)
	case MapV:
		mt := x.X.Type().Underlying().(*types.Map)
		key := in.get(fr, x.Index)
		var val Value
		found := false
		if v.H != 0 {
			m := in.mapObj(v.H, false)
			ks, ok := in.mapKey(m, key)
			if ok {
				val, found = m.vals[ks]
			}
		}
		if !found {
			val = in.zero(mt.Elem())
		}
		if x.CommaOk {
			return TupleV{val, in.ctx.Bool(found)}
		}
		return val
	}
	in.fail("Lookup on %s", x.X.Type())
	return nil
}

// ---------- maps ----------

func (in *Interp) mapObj(h int, write bool) *MapObj {
	if m, ok := in.maps[h]; ok {
		return m
	}
	if in.base != nil {
		if m, ok := in.base.maps[h]; ok {
			if !write {
				return m
			}
			n := m.clone()
			in.maps[h] = n
			return n
		}
	}
	in.fail("dangling map handle %d", h)
	return nil
}

func (in *Interp) keyString(k Value) string {
	switch x := k.(type) {
	case *Term:
		if !x.IsConst() {
			in.fail("symbolic map key")
		}
		return fmt.Sprintf("i%d:%d", x.w, x.val)
	case StrV:
		s, ok := in.goString(x)
		if !ok {
			in.fail("symbolic string map key")
		}
		return "s" + s
	case Ptr:
		return fmt.Sprintf("p%d:%d", x.ID, x.Off)
	case *IfaceV:
		if x == nil || x.T == nil {
			return "nil"
		}
		return "I" + x.T.String() + "|" + in.keyString(x.V)
	case *StructV:
		s := "{"
		for _, f := range x.F {
			s += in.keyString(f) + ","
		}
		return s + "}"
	case *ArrayV:
		s := "["
		for _, f := range x.E {
			s += in.keyString(f) + ","
		}
		return s + "]"
	case MapV:
		return fmt.Sprintf("m%d", x.H)
	case ChanV:
		return fmt.Sprintf("c%d", x.H)
	}
	in.fail("unsupported map key %T", k)
	return ""
}

// isConcreteKey reports whether a map key has a canonical string form.
func isConcreteKey(in *Interp, k Value) bool {
	switch x := k.(type) {
	case *Term:
		return x.IsConst()
	case StrV:
		_, ok := in.goString(x)
		return ok
	case *IfaceV:
		if x == nil || x.T == nil {
			return true
		}
		return isConcreteKey(in, x.V)
	case *StructV:
		for _, f := range x.F {
			if !isConcreteKey(in, f) {
				return false
			}
		}
	case *ArrayV:
		for _, f := range x.E {
			if !isConcreteKey(in, f) {
				return false
			}
		}
	}
	return true
}

// mapKey finds the canonical key string under which k is (or would be) stored.
// A key with symbolic content is compared with the stored keys one by one,
// forking on each undecided equality; a key equal to none of them gets a fresh
// name. found reports whether an entry exists.
func (in *Interp) mapKey(o *MapObj, k Value) (ks string, found bool) {
	conc := isConcreteKey(in, k)
	if conc && !o.hasSym {
		ks = in.keyString(k)
		_, found = o.vals[ks]
		return ks, found
	}
	if conc {
		ks = in.keyString(k)
		if _, ok := o.vals[ks]; ok {
			return ks, true
		}
	}
	if o.kt == nil {
		in.fail("symbolic key in an untyped map model")
	}
	for _, s := range o.keys {
		kv, ok := o.kvals[s]
		if !ok {
			continue
		}
		if conc && isConcreteKey(in, kv) {
			continue // two different concrete keys
		}
		eq := in.equal(o.kt, k, kv)
		if eq.IsConst() {
			if eq.val != 0 {
				return s, true
			}
			continue
		}
		if in.branch(eq) {
			return s, true
		}
	}
	if conc {
		return ks, false
	}
	in.symKeySeq++
	return fmt.Sprintf("sym#%d", in.symKeySeq), false
}

func (in *Interp) mapUpdate(m MapV, k, v Value) {
	if m.H == 0 {
		in.gopanic("assignment to entry in nil map")
	}
	o := in.mapObj(m.H, true)
	ks, _ := in.mapKey(o, k)
	if !isConcreteKey(in, k) {
		o.hasSym = true
	}
	if _, ok := o.vals[ks]; !ok {
		o.keys = append(o.keys, ks)
		o.kvals[ks] = k
	}
	o.vals[ks] = v
}

func (in *Interp) mapDelete(m MapV, k Value) {
	if m.H == 0 {
		return
	}
	o := in.mapObj(m.H, true)
	ks, _ := in.mapKey(o, k)
	if _, ok := o.vals[ks]; ok {
		delete(o.vals, ks)
		delete(o.kvals, ks)
		for i, x := range o.keys {
			if x == ks {
				o.keys = append(o.keys[:i:i], o.keys[i+1:]...)
				break
			}
		}
	}
}

// ---------- range ----------

type rangeIter struct {
	isMap bool
	m     MapV
	keys  []string
	kv    []Value
	i     int
	s     StrV
	str   string
}

func (in *Interp) mkRange(fr *frame, x *ssa.Range) Value {
	switch v := in.get(fr, x.X).(type) {
	case MapV:
		it := &rangeIter{isMap: true, m: v}
		if v.H != 0 {
			o := in.mapObj(v.H, false)
			it.keys = append([]string(nil), o.keys...)
			for _, k := range it.keys {
				it.kv = append(it.kv, o.kvals[k])
			}
		}
		return it
	case StrV:
		return &rangeIter{s: v, str: in.mustString(v)}
	}
	in.fail("range over %s", x.X.Type())
	return nil
}

func (in *Interp) next(fr *frame, x *ssa.Next) Value {
	it := in.get(fr, x.Iter).(*rangeIter)
	c := in.ctx
	tt := x.Type().(*types.Tuple)
	if it.isMap {
		for it.i < len(it.keys) {
			ks := it.keys[it.i]
			kv := it.kv[it.i]
			it.i++
			o := in.mapObj(it.m.H, false)
			if v, ok := o.vals[ks]; ok {
				return TupleV{c.Bool(true), kv, v}
			}
		}
		var kz, vz Value
		if tt.At(1).Type() != nil {
			kz = in.zeroOrNil(tt.At(1).Type())
		}
		vz = in.zeroOrNil(tt.At(2).Type())
		return TupleV{c.Bool(false), kz, vz}
	}
	if it.i >= len(it.str) {
		return TupleV{c.Bool(false), c.Const(64, 0), c.Const(32, 0)}
	}
	r, sz := utf8.DecodeRuneInString(it.str[it.i:])
	k := it.i
	it.i += sz
	return TupleV{c.Bool(true), c.Const(64, uint64(k)), c.Const(32, uint64(uint32(r)))}
}

func (in *Interp) zeroOrNil(t types.Type) Value {
	if b, ok := t.(*types.Basic); ok && b.Kind() == types.Invalid {
		return nil
	}
	return in.zero(t)
}

// ---------- slicing ----------

func (in *Interp) slice(fr *frame, x *ssa.Slice) Value {
	geti := func(v ssa.Value, def int) int {
		if v == nil {
			return def
		}
		t := in.indexTerm(fr, v)
		return int(in.concretize(t, "slice bound"))
	}
	switch xt := x.X.Type().Underlying().(type) {
	case *types.Slice:
		s := in.get(fr, x.X).(SliceV)
		lo := geti(x.Low, 0)
		hi := geti(x.High, s.Len)
		mx := geti(x.Max, s.Cap)
		if lo < 0 || hi < lo || mx < hi || mx > s.Cap {
			in.gopanic(fmt.Sprintf("slice bounds out of range [%d:%d:%d] with capacity %d", lo, hi, mx, s.Cap))
		}
		es := sizeof(xt.Elem())
		if s.P.ID == 0 {
			return SliceV{}
		}
		return SliceV{Ptr{s.P.ID, s.P.Off + lo*es}, hi - lo, mx - lo}
	case *types.Basic: // string
		s := in.get(fr, x.X).(StrV)
		lo := geti(x.Low, 0)
		hi := geti(x.High, s.Len)
		if lo < 0 || hi < lo || hi > s.Len {
			in.gopanic(fmt.Sprintf("slice bounds out of range [%d:%d] with length %d", lo, hi, s.Len))
		}
		if hi == lo {
			return StrV{}
		}
		return StrV{Ptr{s.P.ID, s.P.Off + lo}, hi - lo}
	case *types.Pointer:
		at := xt.Elem().Underlying().(*types.Array)
		p := in.get(fr, x.X).(Ptr)
		n := int(at.Len())
		lo := geti(x.Low, 0)
		hi := geti(x.High, n)
		mx := geti(x.Max, n)
		if p.ID == 0 {
			in.gopanic("nil pointer dereference")
		}
		if lo < 0 || hi < lo || mx < hi || mx > n {
			in.gopanic("slice bounds out of range")
		}
		es := sizeof(at.Elem())
		return SliceV{Ptr{p.ID, p.Off + lo*es}, hi - lo, mx - lo}
	}
	in.fail("Slice on %s", x.X.Type())
	return nil
}

// ---------- type assertions ----------

func (in *Interp) typeAssert(fr *frame, x *ssa.TypeAssert) Value {
	iv := in.get(fr, x.X).(*IfaceV)
	var ok bool
	var res Value
	if iv != nil && iv.T != nil {
		if types.IsInterface(x.AssertedType) {
			if in.implements(iv.T, x.AssertedType.Underlying().(*types.Interface)) {
				ok = true
				res = iv
			}
		} else if types.Identical(iv.T, x.AssertedType) {
			ok = true
			res = iv.V
		}
	}
	if x.CommaOk {
		if !ok {
			if types.IsInterface(x.AssertedType) {
				res = &IfaceV{}
			} else {
				res = in.zero(x.AssertedType)
			}
		}
		return TupleV{res, in.ctx.Bool(ok)}
	}
	if !ok {
		have := "nil"
		if iv != nil && iv.T != nil {
			have = iv.T.String()
		}
		in.gopanic("interface conversion: interface is " + have + ", not " + x.AssertedType.String())
	}
	return res
}

func (in *Interp) implements(t types.Type, it *types.Interface) bool {
	return types.Implements(t, it)
}

package main

import (
	"bytes"
	"encoding/json"
	"flag"
	"fmt"
	"go/ast"
	"os"
	"path/filepath"
	"regexp"
	"runtime"
	"runtime/debug"
	"runtime/pprof"
	"sort"
	"strconv"
	"strings"
	"time"

	"golang.org/x/tools/go/packages"
	"golang.org/x/tools/go/ssa"
	"golang.org/x/tools/go/ssa/ssautil"
)

type HarnessSpec struct {
	Pkg        string   `json:"pkg"`  // import path
	Func       string   `json:"func"` // harness function name
	Unwind     int      `json:"unwind"`
	MaxPaths   int      `json:"max_paths"`
	MaxSteps   int64    `json:"max_steps"`
	Init       []string `json:"init"` // extra packages to initialise eagerly
	Validate   int      `json:"validate"`
	QueryMs    int      `json:"query_ms"`
	MaxSeconds int      `json:"max_seconds"`
}

type Spec struct {
	Repo       string        `json:"repo"`
	HarnessDir string        `json:"harness_dir"`
	Tier       int           `json:"tier"`
	Workers    int           `json:"workers"`
	Seed       int64         `json:"seed"`
	Harnesses  []HarnessSpec `json:"harnesses"`
	Mutants    []string      `json:"mutants"` // file=replacement overlays
	WorkDir    string        `json:"work_dir"`
	NoNative   bool          `json:"no_native"`
	ReplayDir  string        `json:"replay_dir"`
}

type Output struct {
	Results  []*HarnessResult  `json:"results"`
	LoadS    float64           `json:"load_s"`
	Solver   SolverStats       `json:"solver"`
	Sources  map[string]string `json:"source_sha256"`
	NumFuncs int               `json:"ssa_functions"`
	Errors   []string          `json:"errors"`
}

const modPath = "github.com/parquet-go/parquet-go"

func main() {
	specPath := flag.String("spec", "", "spec json")
	outPath := flag.String("out", "", "output json")
	trace := flag.Bool("trace", false, "trace")
	replayPath := flag.String("replay", "", "replay a counterexample file natively")
	cpuprof := flag.String("cpuprofile", "", "write cpu profile")
	flag.Parse()
	if *cpuprof != "" {
		f, _ := os.Create(*cpuprof)
		pprof.StartCPUProfile(f)
		defer pprof.StopCPUProfile()
	}
	if *replayPath != "" {
		os.Exit(replayMain(*replayPath))
	}
	debug.SetGCPercent(400)
	var spec Spec
	b, err := os.ReadFile(*specPath)
	if err != nil {
		fatal(err)
	}
	if err := json.Unmarshal(b, &spec); err != nil {
		fatal(err)
	}
	if spec.Repo == "" {
		spec.Repo = "/repo"
	}
	if spec.Workers == 0 {
		spec.Workers = runtime.NumCPU()
	}
	out := &Output{Sources: map[string]string{}}
	t0 := time.Now()
	ld, err := loadProgram(&spec)
	if err != nil {
		fatal(err)
	}
	out.LoadS = time.Since(t0).Seconds()
	out.NumFuncs = ld.numFuncs
	fmt.Fprintf(os.Stderr, "loaded %d functions in %.1fs\n", ld.numFuncs, out.LoadS)

	for _, hs := range spec.Harnesses {
		res := runHarness(ld, &spec, hs, *trace)
		out.Results = append(out.Results, res)
		fmt.Fprintf(os.Stderr, "%s: paths=%d ok=%d abort=%d panic=%d oblig=%d discharged=%d viol=%d inconcl=%d wall=%.1fs\n",
			hs.Func, res.Paths, res.PathsOK, res.PathsAborted, res.PathsPanic, res.Obligations, res.Discharged, len(res.Violations), len(res.Inconclusive), res.WallS)
	}
	out.Solver = gStats
	for f, h := range ld.hashes {
		out.Sources[f] = h
	}
	js, _ := json.MarshalIndent(out, "", " ")
	if *outPath != "" {
		os.WriteFile(*outPath, js, 0644)
	} else {
		os.Stdout.Write(js)
	}
}

func fatal(err error) {
	fmt.Fprintln(os.Stderr, "gosym:", err)
	os.Exit(3)
}

type concSpec struct {
	Idx    int
	Ranged bool
	Lo, Hi int64
}

type loaded struct {
	prog       *ssa.Program
	pkgs       map[string]*ssa.Package
	numFuncs   int
	replaces   map[string]map[string]string   // harness file -> callee -> stub
	concretize map[string]map[string]concSpec // harness file -> callee -> parameter to concretise
	fileOf     map[string]string              // harness func -> file
	allFuncs   map[string]*ssa.Function
	hashes     map[string]string
	overlay    map[string][]byte
	hfiles     map[string][]string // pkg rel dir -> overlay file paths
}

var replaceRe = regexp.MustCompile(`(?m)^//verif:(?:replace|wrap)\s+(\S+)\s+=>\s+(\S+)\s*$`)
var concretizeRe = regexp.MustCompile(`(?m)^//verif:concretize\s+(\S+)\s+(\d+)(?:\s+(-?\d+)\s+(-?\d+))?\s*$`)

func collectOverlay(spec *Spec, pkgSet map[string]bool) (*loaded, []string, error) {
	ld := &loaded{pkgs: map[string]*ssa.Package{}, replaces: map[string]map[string]string{}, fileOf: map[string]string{}, hashes: map[string]string{}, overlay: map[string][]byte{}, hfiles: map[string][]string{}, concretize: map[string]map[string]concSpec{}}
	var patterns []string
	for p := range pkgSet {
		rel := strings.TrimPrefix(strings.TrimPrefix(p, modPath), "/")
		hdir := filepath.Join(spec.HarnessDir, "root", rel)
		if rel == "" {
			hdir = filepath.Join(spec.HarnessDir, "root")
		}
		files, _ := filepath.Glob(filepath.Join(hdir, "*.go"))
		pkgName := ""
		for _, f := range files {
			src, err := os.ReadFile(f)
			if err != nil {
				return nil, nil, err
			}
			if m := regexp.MustCompile(`(?m)^package\s+(\w+)`).FindSubmatch(src); m != nil {
				pkgName = string(m[1])
			}
			dst := filepath.Join(spec.Repo, rel, "zz_verif_"+filepath.Base(f))
			ld.overlay[dst] = src
			ld.hfiles[rel] = append(ld.hfiles[rel], dst)
			rm := map[string]string{}
			for _, m := range replaceRe.FindAllSubmatch(src, -1) {
				rm[string(m[1])] = string(m[2])
			}
			ld.replaces[dst] = rm
			cm := map[string]concSpec{}
			for _, m := range concretizeRe.FindAllSubmatch(src, -1) {
				k, _ := strconv.Atoi(string(m[2]))
				cs := concSpec{Idx: k}
				if len(m[3]) > 0 {
					cs.Ranged = true
					cs.Lo, _ = strconv.ParseInt(string(m[3]), 10, 64)
					cs.Hi, _ = strconv.ParseInt(string(m[4]), 10, 64)
				}
				cm[string(m[1])] = cs
			}
			ld.concretize[dst] = cm
		}
		if pkgName == "" {
			return nil, nil, fmt.Errorf("no harness files for package %s in %s", p, hdir)
		}
		dst := filepath.Join(spec.Repo, rel, "zz_verif_intrinsics.go")
		ld.overlay[dst] = []byte(strings.Replace(intrinsicsDecl, "package PKG", "package "+pkgName, 1))
		patterns = append(patterns, p)
	}
	for _, m := range spec.Mutants {
		kv := strings.SplitN(m, "=", 2)
		src, err := os.ReadFile(kv[1])
		if err != nil {
			return nil, nil, err
		}
		ld.overlay[filepath.Join(spec.Repo, kv[0])] = src
	}
	sort.Strings(patterns)
	return ld, patterns, nil
}

func loadProgram(spec *Spec) (*loaded, error) {
	pkgSet := map[string]bool{}
	for _, h := range spec.Harnesses {
		pkgSet[h.Pkg] = true
	}
	ld, patterns, err := collectOverlay(spec, pkgSet)
	if err != nil {
		return nil, err
	}
	cfg := &packages.Config{
		Mode:       packages.LoadAllSyntax,
		Dir:        spec.Repo,
		BuildFlags: []string{"-tags=purego,verif"},
		Overlay:    ld.overlay,
		Env:        append(os.Environ(), "GOFLAGS=-mod=mod", "GOPROXY=off"),
	}
	pkgs, err := packages.Load(cfg, patterns...)
	if err != nil {
		return nil, err
	}
	var errs []string
	packages.Visit(pkgs, nil, func(p *packages.Package) {
		for _, e := range p.Errors {
			errs = append(errs, e.Error())
		}
	})
	if len(errs) > 0 {
		return nil, fmt.Errorf("load errors:\n%s", strings.Join(errs, "\n"))
	}
	prog, spkgs := ssautil.AllPackages(pkgs, ssa.InstantiateGenerics)
	prog.Build()
	ld.prog = prog
	for i, p := range pkgs {
		ld.pkgs[p.PkgPath] = spkgs[i]
		// map harness funcs to files
		for _, f := range p.Syntax {
			fname := p.Fset.Position(f.Pos()).Filename
			for _, d := range f.Decls {
				if fd, ok := d.(*ast.FuncDecl); ok && fd.Recv == nil {
					ld.fileOf[p.PkgPath+"."+fd.Name.Name] = fname
				}
			}
		}
	}
	ld.allFuncs = map[string]*ssa.Function{}
	for f := range ssautil.AllFunctions(prog) {
		ld.numFuncs++
		ld.allFuncs[f.String()] = f
	}
	return ld, nil
}

func runHarness(ld *loaded, spec *Spec, hs HarnessSpec, trace bool) *HarnessResult {
	pkg := ld.pkgs[hs.Pkg]
	res := &HarnessResult{Pkg: hs.Pkg, Func: hs.Func, Covers: map[string]int{}}
	if pkg == nil {
		res.Inconclusive = append(res.Inconclusive, "package not loaded")
		return res
	}
	fn := pkg.Func(hs.Func)
	if fn == nil {
		res.Inconclusive = append(res.Inconclusive, "harness function not found")
		return res
	}
	cfg := &RunConfig{Tier: spec.Tier, MaxSteps: hs.MaxSteps, Unwind: hs.Unwind, QueryMs: hs.QueryMs, FallbackMs: 60000, MaxConc: 300, Trace: trace}
	if cfg.MaxSteps == 0 {
		cfg.MaxSteps = 20_000_000
	}
	if cfg.Unwind == 0 {
		cfg.Unwind = 64
	}
	if cfg.QueryMs == 0 {
		cfg.QueryMs = 20000
		if spec.Tier > 0 {
			cfg.QueryMs = 120000
		}
	}
	if spec.Tier > 0 {
		cfg.FallbackMs = 240000
	}
	maxPaths := hs.MaxPaths
	if maxPaths == 0 {
		maxPaths = 200000
	}
	// replacements from the harness's file
	replace := map[string]*ssa.Function{}
	if file, ok := ld.fileOf[hs.Pkg+"."+hs.Func]; ok {
		for callee, stub := range ld.replaces[file] {
			var target *ssa.Function
			for name, f := range ld.allFuncs {
				if name == callee || f.RelString(pkg.Pkg) == callee {
					target = f
					break
				}
			}
			sf := pkg.Func(stub)
			if target == nil || sf == nil {
				res.Inconclusive = append(res.Inconclusive, fmt.Sprintf("replace directive unresolved: %s => %s", callee, stub))
				return res
			}
			replace[target.String()] = sf
		}
	}
	concParams := map[string]concSpec{}
	if file, ok := ld.fileOf[hs.Pkg+"."+hs.Func]; ok {
		for callee, idx := range ld.concretize[file] {
			found := false
			for name, f := range ld.allFuncs {
				if name == callee || f.RelString(pkg.Pkg) == callee {
					concParams[f.String()] = idx
					found = true
				}
			}
			if !found {
				res.Inconclusive = append(res.Inconclusive, "concretize directive unresolved: "+callee)
				return res
			}
		}
	}
	// base: initialise the harness package and requested extras
	initPkgs := []*ssa.Package{pkg}
	for _, ip := range hs.Init {
		if p := ld.prog.ImportedPackage(ip); p != nil {
			initPkgs = append(initPkgs, p)
		}
	}
	base, initErrs := buildBase(ld.prog, initPkgs, cfg)
	ex := &Explorer{prog: ld.prog, base: base, fn: fn, cfg: cfg, replace: replace, maxSeconds: hs.MaxSeconds, concParams: concParams}
	if ex.maxSeconds == 0 {
		ex.maxSeconds = 900
	}
	r := ex.Run(spec.Workers, maxPaths)
	r.Pkg, r.Func = hs.Pkg, hs.Func
	r.InitErrors = initErrs
	r.Unwind = cfg.Unwind
	// reachability witness: at least one completed path and every cover tag reached
	if r.PathsOK == 0 {
		r.Inconclusive = append(r.Inconclusive, "vacuity: no path completed")
		r.Witness = "none"
	} else if len(r.Covers) == 0 {
		r.Inconclusive = append(r.Inconclusive, "vacuity: harness has no reached vCover point")
		r.Witness = "none"
	} else {
		r.Witness = fmt.Sprintf("%d completed feasible paths; cover points reached: %v", r.PathsOK, r.Covers)
	}
	// replay every counterexample against the natively compiled real code
	hasEnvReplace := false
	if file, ok := ld.fileOf[hs.Pkg+"."+hs.Func]; ok {
		hasEnvReplace = bytes.Contains(ld.overlay[file], []byte("//verif:replace"))
	}
	if !spec.NoNative {
		for i := range r.Violations {
			v := &r.Violations[i]
			if i >= 5 {
				v.ReplayNote = "not replayed (only the first 5 counterexamples are replayed)"
				continue
			}
			path := filepath.Join(replayDir(spec), fmt.Sprintf("%s-%d.json", hs.Func, i))
			v.ReplayPath = path
			v.Reproduced, v.ReplayNote = replayNative(ld, spec, hs, v, path)
		}
	} else {
		for i := range r.Violations {
			r.Violations[i].ReplayNote = "native replay disabled for this run"
		}
	}
	if hs.Validate > 0 && !spec.NoNative && !hasEnvReplace {
		r.Validation = validate(ld, spec, hs, base, fn, cfg, replace)
		if r.Validation.Mismatches > 0 || r.Validation.Error != "" {
			r.Inconclusive = append(r.Inconclusive, "translator validation failed: "+r.Validation.Error+" "+strings.Join(r.Validation.Samples, " | "))
		}
	}
	return r
}

const intrinsicsDecl = `//go:build verif

package PKG

func vBool(tag string) bool            { panic("verif intrinsic") }
func vU8(tag string) uint8             { panic("verif intrinsic") }
func vU16(tag string) uint16           { panic("verif intrinsic") }
func vU32(tag string) uint32           { panic("verif intrinsic") }
func vU64(tag string) uint64           { panic("verif intrinsic") }
func vI8(tag string) int8              { panic("verif intrinsic") }
func vI16(tag string) int16            { panic("verif intrinsic") }
func vI32(tag string) int32            { panic("verif intrinsic") }
func vI64(tag string) int64            { panic("verif intrinsic") }
func vInt(tag string) int              { panic("verif intrinsic") }
func vF32(tag string) float32          { panic("verif intrinsic") }
func vF64(tag string) float64          { panic("verif intrinsic") }
func vBytes(tag string, n int) []byte  { panic("verif intrinsic") }
func vString(tag string, n int) string { panic("verif intrinsic") }
func vHavoc(tag string, b []byte)      { panic("verif intrinsic") }
func vChoose(tag string, lo, hi int) int { panic("verif intrinsic") }
func vTier() int                       { panic("verif intrinsic") }
func vAssume(c bool)                   { panic("verif intrinsic") }
func vAssert(c bool, msg string)       { panic("verif intrinsic") }
func vCover(tag string)                { panic("verif intrinsic") }
func vUnwind(k int)                    { panic("verif intrinsic") }
func vAll(c ...bool) bool              { panic("verif intrinsic") }
func vAny(c ...bool) bool              { panic("verif intrinsic") }
func vImplies(a, b bool) bool          { panic("verif intrinsic") }
func vBytesEq(a, b []byte) bool        { panic("verif intrinsic") }
func vObserveInt(tag string, v int64)  { panic("verif intrinsic") }
func vObserveBool(tag string, v bool)  { panic("verif intrinsic") }
func vObserveBytes(tag string, v []byte) { panic("verif intrinsic") }
func vTry(f func()) bool               { panic("verif intrinsic") }
func vOverlap(a, b []byte) bool        { panic("verif intrinsic") }
func vLearnBits(x uint64, w int)       { panic("verif intrinsic") }
func vAbstractCRC()                    { panic("verif intrinsic") }
func vAbstractCRCFixedWidth()          { panic("verif intrinsic") }
func vReplayVal(tag string, k int) (uint64, bool) { panic("verif intrinsic: native scenarios only") }
func vWithTimeout(f func(), seconds int) bool     { panic("verif intrinsic: native scenarios only") }
`

func replayDir(spec *Spec) string {
	if spec.ReplayDir != "" {
		return spec.ReplayDir
	}
	return "/verif/replays"
}

// replayMain re-runs a stored counterexample against the current /repo tree.
func replayMain(path string) int {
	b, err := os.ReadFile(path)
	if err != nil {
		fatal(err)
	}
	var cx struct {
		Pkg, Harness, Kind, Msg, Where string
		NativeFunc                     string `json:"native_func"`
		Nondets                        []NondetRec
		Tier                           int
	}
	if err := json.Unmarshal(b, &cx); err != nil {
		fatal(err)
	}
	spec := &Spec{Repo: "/repo", HarnessDir: "/verif/harness", Tier: cx.Tier, WorkDir: "/verif/work/replay"}
	if d := os.Getenv("VERIF_HARNESS_DIR"); d != "" {
		spec.HarnessDir = d
	}
	ld, _, err := collectOverlay(spec, map[string]bool{cx.Pkg: true})
	if err != nil {
		fatal(err)
	}
	v := &Violation{Kind: cx.Kind, Msg: cx.Msg, Where: cx.Where, Nondets: cx.Nondets}
	tmp := path + ".rerun"
	ok, note := replayNative(ld, spec, HarnessSpec{Pkg: cx.Pkg, Func: cx.Harness}, v, tmp)
	os.Remove(tmp)
	fmt.Println(note)
	if ok {
		fmt.Printf("REPRODUCED %s %s: %s\n", cx.Harness, cx.Kind, cx.Msg)
		return 1
	}
	fmt.Println("not reproduced")
	return 0
}

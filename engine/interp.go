package main

import (
	"fmt"
	"go/constant"
	"go/token"
	"go/types"
	"math"
	"os"
	"strings"
	"sync"
	"time"

	"golang.org/x/tools/go/ssa"
)

type deferred struct {
	fn   Value
	args []Value
	call *ssa.CallCommon
}

type frame struct {
	fn        *ssa.Function
	info      *fnInfo
	regs      []Value
	defers    []deferred
	block     *ssa.BasicBlock
	prev      *ssa.BasicBlock
	cur       ssa.Instruction
	symVisits map[ssa.Instruction]int
	depth     int
	panicking *goPanic
	recovered bool
	merged    *mergedPred // set when entering a join block after if-conversion
}

type mergedPred struct {
	cond         *Term
	predT, predF *ssa.BasicBlock
}

type fnInfo struct {
	idx map[ssa.Value]int
	n   int
}

var fnInfos sync.Map

func infoFor(fn *ssa.Function) *fnInfo {
	if v, ok := fnInfos.Load(fn); ok {
		return v.(*fnInfo)
	}
	fi := &fnInfo{idx: map[ssa.Value]int{}}
	for _, p := range fn.Params {
		fi.idx[p] = fi.n
		fi.n++
	}
	for _, p := range fn.FreeVars {
		fi.idx[p] = fi.n
		fi.n++
	}
	for _, b := range fn.Blocks {
		for _, ins := range b.Instrs {
			if v, ok := ins.(ssa.Value); ok {
				fi.idx[v] = fi.n
				fi.n++
			}
		}
	}
	v, _ := fnInfos.LoadOrStore(fn, fi)
	return v.(*fnInfo)
}

type Decision struct {
	Kind byte // 'b' branch, 'c' choose/concretize value, 'o' open concretize (find a new value)
	Val  int64
	Excl []int64
}

type NondetRec struct {
	Tag  string `json:"tag"`
	Kind string `json:"kind"`
	W    int    `json:"w"`
	Val  uint64 `json:"val"`
	term *Term
}

type Interp struct {
	prog *ssa.Program
	base *Base
	ctx  *Ctx
	sol  *Solver
	cfg  *RunConfig

	objs     map[int]*Object
	maps     map[int]*MapObj
	chans    map[int]*ChanObj
	boxes    []Value
	nextObj  int
	nextMap  int
	strs     map[string]int
	globals  map[*ssa.Global]int
	poisoned map[int]string
	inited   map[*ssa.Package]bool

	stack     []*frame
	steps     int64
	maxSteps  int64
	unwind    int
	tolerant  int
	recoverFr *frame

	// exploration
	decs    []Decision
	pos     int
	newWork [][]Decision
	pc      []*Term

	nondets  []NondetRec
	forced   []NondetRec // concrete mode: values to feed nondets
	forcedAt int
	concrete bool // concrete mode (translator validation / replay inside engine)
	obsLog   []string

	res *PathResult

	trackReleased  bool
	releasedFatal  bool
	releasedAccess int
	ghost          map[string]Value
	funcsSeen      map[*ssa.Function]bool
	replaceFn      map[string]*ssa.Function
	pureMode       bool // executing an if-conversion arm
	initErrors     []string
	deadline       time.Time
	concParams     map[string]concSpec
	pinned         map[*Term]uint64
	model          map[string]uint64
	modelFor       *Term
	onceDone       map[Ptr]bool
	pools          map[Ptr][]Value
	atomicVals     map[Ptr]Value
	reflIters      map[int]*reflMapIter
	syncMaps       map[Ptr]*MapObj
	symKeySeq      int
	abstractCRC    bool
	crcFixedWidth  bool
	crcMemo        map[string]*Term
	crcStreams     map[*Term]*crcStream
}

type ChanObj struct {
	buf    []Value
	cap    int
	closed bool
}

type RunConfig struct {
	Tier       int
	MaxSteps   int64
	Unwind     int
	QueryMs    int
	FallbackMs int
	MaxConc    int
	NoIfConv   bool
	Trace      bool
}

func (in *Interp) where() string {
	if len(in.stack) == 0 {
		return "?"
	}
	fr := in.stack[len(in.stack)-1]
	pos := token.NoPos
	if fr.cur != nil {
		pos = fr.cur.Pos()
	}
	s := fr.fn.String()
	if pos.IsValid() {
		p := in.prog.Fset.Position(pos)
		s += fmt.Sprintf(" (%s:%d)", shortFile(p.Filename), p.Line)
	}
	// add caller for context
	if len(in.stack) > 1 {
		c := in.stack[len(in.stack)-2]
		if c.cur != nil && c.cur.Pos().IsValid() {
			p := in.prog.Fset.Position(c.cur.Pos())
			s += fmt.Sprintf(" <- %s (%s:%d)", c.fn.Name(), shortFile(p.Filename), p.Line)
		}
	}
	return s
}

func shortFile(f string) string {
	if i := strings.LastIndex(f, "/"); i >= 0 {
		j := strings.LastIndex(f[:i], "/")
		return f[j+1:]
	}
	return f
}

// ---------- operand evaluation ----------

func (in *Interp) get(fr *frame, v ssa.Value) Value {
	switch x := v.(type) {
	case *ssa.Const:
		return in.constValue(x)
	case *ssa.Global:
		return in.globalPtr(x)
	case *ssa.Function:
		return &FuncV{Fn: x}
	case *ssa.Builtin:
		return &FuncV{B: x}
	}
	i, ok := fr.info.idx[v]
	if !ok {
		in.fail("unknown ssa value %s", v.Name())
	}
	r := fr.regs[i]
	if p, ok := r.(Poison); ok && in.tolerant == 0 {
		in.fail("use of poisoned value: %s", p.Why)
	}
	return r
}

func (in *Interp) set(fr *frame, v ssa.Value, val Value) {
	fr.regs[fr.info.idx[v]] = val
}

func (in *Interp) constValue(c *ssa.Const) Value {
	t := c.Type()
	if c.Value == nil {
		return in.zero(t)
	}
	switch u := t.Underlying().(type) {
	case *types.Basic:
		if u.Info()&types.IsString != 0 {
			return in.constString(constant.StringVal(c.Value))
		}
		k, ok := basicInfo(u)
		if !ok {
			in.fail("const of type %s", t)
		}
		switch {
		case k.isBool:
			return in.ctx.Bool(constant.BoolVal(c.Value))
		case k.float:
			f, _ := constant.Float64Val(constant.ToFloat(c.Value))
			if k.w == 32 {
				return in.ctx.Const(32, uint64(math.Float32bits(float32(f))))
			}
			return in.ctx.Const(64, math.Float64bits(f))
		default:
			iv := constant.ToInt(c.Value)
			if i, ok := constant.Int64Val(iv); ok {
				return in.ctx.Const(k.w, uint64(i))
			}
			if ui, ok := constant.Uint64Val(iv); ok {
				return in.ctx.Const(k.w, ui)
			}
			in.fail("const %s out of range", c.Value)
		}
	}
	in.fail("const of type %s", t)
	return nil
}

// ---------- calling ----------

func (in *Interp) callFunction(fn *ssa.Function, args []Value, bind []Value) (ret Value) {
	if r, ok := in.replaceFn[fn.String()]; ok {
		// a wrapper stub may call the function it wraps
		inside := false
		for _, fr := range in.stack {
			if fr.fn == r {
				inside = true
				break
			}
		}
		if !inside {
			// a stub for a method of an unexported receiver type may omit the receiver
			if fn.Signature.Recv() != nil && len(args) == len(r.Params)+1 {
				args = args[1:]
			}
			fn = r
		}
	}
	if handled, r := in.intrinsic(fn, args); handled {
		return r
	}
	if fn.Blocks == nil {
		in.fail("function without body: %s", fn.String())
	}
	if len(in.concParams) > 0 {
		if cs, ok := in.concParams[fn.String()]; ok && cs.Idx < len(args) {
			if t, ok := args[cs.Idx].(*Term); ok && !t.IsConst() {
				var v int64
				if pv, ok := in.evalPinned(t); ok {
					v = signExt(pv, t.w)
				} else if cs.Ranged {
					v = in.concretizeRanged(t, cs.Lo, cs.Hi, "directive "+fn.Name())
				} else {
					v = in.concretize(t, "directive "+fn.Name())
				}
				args = append([]Value(nil), args...)
				args[cs.Idx] = in.ctx.Const(t.w, uint64(v))
			}
		}
	}
	if len(in.stack) > 400 {
		in.fail("call depth exceeded")
	}
	if in.funcsSeen != nil {
		in.funcsSeen[fn] = true
	}
	fi := infoFor(fn)
	fr := &frame{fn: fn, info: fi, regs: make([]Value, fi.n), depth: len(in.stack)}
	copy(fr.regs, args)
	copy(fr.regs[len(fn.Params):], bind)
	if len(args) != len(fn.Params) {
		in.fail("arity mismatch calling %s: %d args for %d params", fn, len(args), len(fn.Params))
	}
	in.stack = append(in.stack, fr)
	defer func() {
		if r := recover(); r != nil {
			gp, isGo := r.(*goPanic)
			if !isGo {
				panic(r)
			}
			// run deferred calls with the panic in flight
			fr.panicking = gp
			in.stack = in.stack[:fr.depth+1]
			in.runDefers(fr)
			if fr.panicking != nil {
				in.stack = in.stack[:fr.depth]
				panic(fr.panicking)
			}
			// recovered: resume at Recover block or return zero results
			if fn.Recover != nil {
				fr.block = fn.Recover
				fr.prev = nil
				ret = in.runBlocks(fr)
			} else {
				ret = in.zeroResults(fn)
			}
			in.stack = in.stack[:fr.depth]
			return
		}
		in.stack = in.stack[:fr.depth]
	}()
	fr.block = fn.Blocks[0]
	return in.runBlocks(fr)
}

func (in *Interp) zeroResults(fn *ssa.Function) Value {
	res := fn.Signature.Results()
	switch res.Len() {
	case 0:
		return nil
	case 1:
		return in.zero(res.At(0).Type())
	}
	return in.zero(res)
}

func (in *Interp) runDefers(fr *frame) {
	for len(fr.defers) > 0 {
		d := fr.defers[len(fr.defers)-1]
		fr.defers = fr.defers[:len(fr.defers)-1]
		saved := in.recoverFr
		in.recoverFr = fr
		func() {
			defer func() { in.recoverFr = saved }()
			in.callValue(d.fn, d.args, d.call)
		}()
	}
}

func (in *Interp) callValue(f Value, args []Value, cc *ssa.CallCommon) Value {
	fv, ok := f.(*FuncV)
	if !ok || fv == nil || (fv.Fn == nil && fv.B == nil && fv.N == nil) {
		in.gopanic("call of nil function")
	}
	if fv.B != nil {
		return in.builtin(fv.B, args, cc)
	}
	if fv.N != nil {
		return fv.N(in, args)
	}
	return in.callFunction(fv.Fn, args, fv.Bind)
}

func (in *Interp) doCall(fr *frame, cc *ssa.CallCommon) (Value, []Value, *ssa.Function) {
	var args []Value
	if cc.IsInvoke() {
		recv := in.get(fr, cc.Value).(*IfaceV)
		if recv == nil || recv.T == nil {
			in.gopanic("nil pointer dereference (method call on nil interface)")
		}
		fn := in.lookupMethod(recv.T, cc.Method)
		args = append(args, recv.V)
		for _, a := range cc.Args {
			args = append(args, in.get(fr, a))
		}
		return &FuncV{Fn: fn}, args, fn
	}
	for _, a := range cc.Args {
		args = append(args, in.get(fr, a))
	}
	return in.get(fr, cc.Value), args, nil
}

func (in *Interp) lookupMethod(t types.Type, m *types.Func) *ssa.Function {
	fn := in.prog.LookupMethod(t, m.Pkg(), m.Name())
	if fn == nil {
		in.fail("no method %s on %s", m.Name(), t)
	}
	return fn
}

// ---------- block execution ----------

func (in *Interp) runBlocks(fr *frame) Value {
	for {
		b := fr.block
		instrs := b.Instrs
		i := 0
		// phis first, evaluated in parallel
		if len(instrs) > 0 {
			if _, ok := instrs[0].(*ssa.Phi); ok {
				n := 0
				for n < len(instrs) {
					if _, ok := instrs[n].(*ssa.Phi); !ok {
						break
					}
					n++
				}
				vals := make([]Value, n)
				if fr.merged != nil {
					m := fr.merged
					it, ifa := -1, -1
					for k, p := range b.Preds {
						if p == m.predT && it < 0 {
							it = k
						} else if p == m.predF {
							ifa = k
						}
					}
					if m.predT == m.predF {
						// both edges come from the same block (If with both succs == join)
						it, ifa = -1, -1
						for k, p := range b.Preds {
							if p == m.predT {
								if it < 0 {
									it = k
								} else {
									ifa = k
								}
							}
						}
					}
					for k := 0; k < n; k++ {
						phi := instrs[k].(*ssa.Phi)
						vt := in.get(fr, phi.Edges[it])
						vf := in.get(fr, phi.Edges[ifa])
						vals[k] = in.iteValue(m.cond, vt, vf)
					}
					fr.merged = nil
				} else {
					pi := -1
					for k, p := range b.Preds {
						if p == fr.prev {
							pi = k
							break
						}
					}
					if pi < 0 {
						in.fail("phi: predecessor not found")
					}
					for k := 0; k < n; k++ {
						vals[k] = in.get(fr, instrs[k].(*ssa.Phi).Edges[pi])
					}
				}
				for k := 0; k < n; k++ {
					in.set(fr, instrs[k].(*ssa.Phi), vals[k])
				}
				i = n
			}
		}
		fr.merged = nil
		for ; i < len(instrs); i++ {
			ins := instrs[i]
			fr.cur = ins
			in.steps++
			if in.steps&0xfff == 0 && !in.deadline.IsZero() && time.Now().After(in.deadline) {
				panic(engineErr{"per-path time budget exhausted @ " + in.where()})
			}
			if in.steps > in.maxSteps {
				panic(engineErr{fmt.Sprintf("step budget %d exhausted @ %s", in.maxSteps, in.where())})
			}
			switch x := ins.(type) {
			case *ssa.Jump:
				fr.prev = b
				fr.block = b.Succs[0]
			case *ssa.If:
				cond := in.get(fr, x.Cond).(*Term)
				var taken bool
				if cond.IsConst() {
					taken = cond.val == 1
				} else {
					if in.tryIfConvert(fr, b, cond) {
						goto nextBlock
					}
					in.noteSymVisit(fr, x)
					taken = in.branch(cond)
				}
				fr.prev = b
				if taken {
					fr.block = b.Succs[0]
				} else {
					fr.block = b.Succs[1]
				}
			case *ssa.Return:
				var ret Value
				switch len(x.Results) {
				case 0:
				case 1:
					ret = in.get(fr, x.Results[0])
				default:
					tv := make(TupleV, len(x.Results))
					for k, r := range x.Results {
						tv[k] = in.get(fr, r)
					}
					ret = tv
				}
				return ret
			case *ssa.Panic:
				v := in.get(fr, x.X)
				panic(&goPanic{val: v, kind: "explicit panic: " + in.describePanic(v), pos: in.where()})
			default:
				if in.tolerant > 0 && fr.depth == in.tolerant-1 {
					in.execTolerant(fr, ins)
				} else {
					in.exec(fr, ins)
				}
			}
		}
	nextBlock:
	}
}

func (in *Interp) execTolerant(fr *frame, ins ssa.Instruction) {
	defer func() {
		if r := recover(); r != nil {
			var why string
			switch e := r.(type) {
			case engineErr:
				why = e.msg
			case *goPanic:
				why = "panic during init: " + e.kind
			default:
				panic(r)
			}
			in.stack = in.stack[:fr.depth+1]
			if v, ok := ins.(ssa.Value); ok {
				in.set(fr, v, Poison{why})
			}
			if st, ok := ins.(*ssa.Store); ok {
				if p, ok := fr.regs[fr.info.idx[st.Addr]].(Ptr); ok && p.ID != 0 {
					in.poisoned[p.ID] = why
				} else if g, ok := st.Addr.(*ssa.Global); ok {
					in.poisoned[in.globalPtr(g).ID] = why
				}
			}
		}
	}()
	in.exec(fr, ins)
}

func (in *Interp) describePanic(v Value) string {
	iv, ok := v.(*IfaceV)
	if !ok || iv == nil || iv.T == nil {
		return "nil"
	}
	if s, ok := iv.V.(StrV); ok {
		if str, ok := in.goString(s); ok {
			return str
		}
	}
	return iv.T.String()
}

func (in *Interp) noteSymVisit(fr *frame, x ssa.Instruction) {
	if fr.symVisits == nil {
		fr.symVisits = map[ssa.Instruction]int{}
	}
	fr.symVisits[x]++
	if fr.symVisits[x] > in.unwind {
		panic(engineErr{fmt.Sprintf("unwinding assertion: symbolic branch taken more than %d times @ %s", in.unwind, in.where())})
	}
}

func (in *Interp) iteValue(c *Term, a, b Value) Value {
	ta, ok1 := a.(*Term)
	tb, ok2 := b.(*Term)
	if ok1 && ok2 {
		return in.ctx.Ite(c, ta, tb)
	}
	if valueIdentical(a, b) {
		return a
	}
	panic(ifConvAbort{})
}

type ifConvAbort struct{}

func valueIdentical(a, b Value) bool {
	switch x := a.(type) {
	case Ptr:
		y, ok := b.(Ptr)
		return ok && x == y
	case SliceV:
		y, ok := b.(SliceV)
		return ok && x == y
	case StrV:
		y, ok := b.(StrV)
		return ok && x == y
	case *Term:
		y, ok := b.(*Term)
		return ok && same(x, y)
	}
	return false
}

// tryIfConvert handles triangles and diamonds whose arms are side-effect free.
func (in *Interp) tryIfConvert(fr *frame, b *ssa.BasicBlock, cond *Term) (ok bool) {
	if in.cfg.NoIfConv || in.pureMode {
		return false
	}
	t, f := b.Succs[0], b.Succs[1]
	var join *ssa.BasicBlock
	armT, armF := false, false
	isArm := func(x *ssa.BasicBlock) bool {
		if len(x.Preds) != 1 || len(x.Succs) != 1 || len(x.Instrs) > 12 {
			return false
		}
		for _, ins := range x.Instrs[:len(x.Instrs)-1] {
			switch y := ins.(type) {
			case *ssa.BinOp:
				switch y.Op {
				case token.QUO, token.REM:
					return false
				case token.SHL, token.SHR:
					if k, ok := scalarOf(y.Y.Type()); ok && k.signed {
						if _, isC := y.Y.(*ssa.Const); !isC {
							return false
						}
					}
				}
			case *ssa.UnOp:
				if y.Op == token.ARROW {
					return false
				}
			case *ssa.Convert, *ssa.ChangeType, *ssa.IndexAddr, *ssa.FieldAddr, *ssa.Field, *ssa.Extract, *ssa.Index:
			default:
				return false
			}
		}
		_, isJump := x.Instrs[len(x.Instrs)-1].(*ssa.Jump)
		return isJump
	}
	switch {
	case isArm(t) && isArm(f) && t.Succs[0] == f.Succs[0]:
		join, armT, armF = t.Succs[0], true, true
	case isArm(t) && t.Succs[0] == f:
		join, armT = f, true
	case isArm(f) && f.Succs[0] == t:
		join, armF = t, true
	default:
		return false
	}
	if len(join.Instrs) == 0 {
		return false
	}
	if _, isPhi := join.Instrs[0].(*ssa.Phi); !isPhi {
		return false
	}
	// the join's phis must all be scalars (or identical values)
	saveRegs := append([]Value(nil), fr.regs...)
	saveSteps := in.steps
	defer func() {
		if r := recover(); r != nil {
			switch r.(type) {
			case ifConvAbort, *goPanic, engineErr:
				// speculative execution failed: restore and fork normally
				copy(fr.regs, saveRegs)
				in.steps = saveSteps
				in.stack = in.stack[:fr.depth+1]
				in.pureMode = false
				fr.merged = nil
				ok = false
				return
			}
			panic(r)
		}
	}()
	in.pureMode = true
	runArm := func(x *ssa.BasicBlock) {
		for _, ins := range x.Instrs[:len(x.Instrs)-1] {
			fr.cur = ins
			in.exec(fr, ins)
		}
	}
	predT, predF := b, b
	if armT {
		runArm(t)
		predT = t
	}
	if armF {
		runArm(f)
		predF = f
	}
	in.pureMode = false
	// pre-check phi merge feasibility (raises ifConvAbort if values cannot be merged)
	m := &mergedPred{cond: cond, predT: predT, predF: predF}
	it, ifa := -1, -1
	for k, p := range join.Preds {
		if p == predT && it < 0 {
			it = k
		} else if p == predF {
			ifa = k
		}
	}
	if it < 0 || ifa < 0 {
		panic(ifConvAbort{})
	}
	for _, ins := range join.Instrs {
		phi, isPhi := ins.(*ssa.Phi)
		if !isPhi {
			break
		}
		in.iteValue(cond, in.get(fr, phi.Edges[it]), in.get(fr, phi.Edges[ifa]))
	}
	fr.merged = m
	fr.prev = nil
	fr.block = join
	if in.res != nil {
		in.res.IfConv++
	}
	return true
}

// ---------- decisions ----------

func (in *Interp) assumeTerm(t *Term) {
	if t.IsConst() {
		if t.val == 0 {
			panic(pathAbort{"infeasible"})
		}
		return
	}
	in.pc = append(in.pc, t)
	in.ctx.noteAssumed(t)
	if in.sol != nil {
		in.sol.Assert(t)
	}
	if in.model != nil && t != in.modelFor {
		if !in.evalModelSafe(t) {
			in.model = nil
		}
	}
	in.modelFor = nil
}

func (in *Interp) evalModelSafe(t *Term) (ok bool) {
	defer func() {
		if recover() != nil {
			ok = false
		}
	}()
	return Eval(t, in.model, map[*Term]uint64{}) == 1
}

func (in *Interp) feasible(t *Term) Result {
	if t.IsConst() {
		if t.val == 1 {
			return Sat
		}
		return Unsat
	}
	if in.model != nil && in.evalModelSafe(t) {
		return Sat
	}
	return in.feasibleM(t, true)
}

// evalPinned evaluates t when every leaf it depends on has been pinned to a
// constant by an earlier concretisation on this path.
func (in *Interp) evalPinned(t *Term) (v uint64, ok bool) {
	if len(in.pinned) == 0 || t.size > 4000 {
		return 0, false
	}
	defer func() {
		if r := recover(); r != nil {
			if _, is := r.(unpinned); is {
				v, ok = 0, false
				return
			}
			panic(r)
		}
	}()
	memo := map[*Term]uint64{}
	return evalWith(t, in.pinned, memo), true
}

type unpinned struct{}

func evalWith(t *Term, pinned map[*Term]uint64, memo map[*Term]uint64) uint64 {
	if v, ok := pinned[t]; ok {
		return v
	}
	if v, ok := memo[t]; ok {
		return v
	}
	if t.op == OpVar {
		panic(unpinned{})
	}
	if t.op == OpConst {
		return t.val
	}
	// evaluate children into a tiny const-only copy and reuse Eval's semantics
	mk := func(x *Term) *Term {
		if x == nil {
			return nil
		}
		return &Term{op: OpConst, w: x.w, val: evalWith(x, pinned, memo)}
	}
	var r uint64
	if t.op == OpIte {
		// lazy: only the taken arm needs to be pinned
		if evalWith(t.a, pinned, memo) == 1 {
			r = evalWith(t.b, pinned, memo)
		} else {
			r = evalWith(t.c, pinned, memo)
		}
	} else {
		tmp := &Term{op: t.op, w: t.w, a: mk(t.a), b: mk(t.b), c: mk(t.c), val: t.val}
		r = Eval(tmp, nil, map[*Term]uint64{})
	}
	memo[t] = r
	return r
}

func (in *Interp) branch(cond *Term) bool {
	if cond.IsConst() {
		return cond.val == 1
	}
	if v, ok := in.evalPinned(cond); ok {
		return v == 1
	}
	if in.pureMode {
		panic(ifConvAbort{})
	}
	if in.concrete {
		in.fail("symbolic branch in concrete mode")
	}
	if in.pos < len(in.decs) {
		d := in.decs[in.pos]
		in.pos++
		if d.Kind != 'b' {
			in.fail("decision replay mismatch (expected branch, have %c)", d.Kind)
		}
		if d.Val == 1 {
			in.assumeTerm(cond)
			return true
		}
		in.assumeTerm(in.ctx.Not(cond))
		return false
	}
	if os.Getenv("GOSYM_TRACE_BRANCH") != "" {
		ts := cond.Debug(7)
		if len(ts) > 1500 {
			ts = ts[:1500] + "…"
		}
		fmt.Fprintf(os.Stderr, "BRANCH @ %s size=%d: %s\n", in.where(), cond.size, ts)
	}
	// A model of the current path condition witnesses one side without a query.
	var rT, rF Result
	if in.model != nil {
		if in.evalModel(cond) {
			rT = Sat
			rF = in.feasibleM(in.ctx.Not(cond), false)
		} else {
			rF = Sat
			rT = in.feasibleM(cond, false)
		}
	} else {
		rT = in.feasibleM(cond, true)
		if rT == Unsat {
			rF = Sat
		} else if rT == Sat && in.model != nil {
			rF = in.feasibleM(in.ctx.Not(cond), false)
		} else {
			rF = in.feasible(in.ctx.Not(cond))
		}
	}
	if rT == Unknown || rF == Unknown {
		in.res.UnknownKept++
	}
	tOK, fOK := rT != Unsat, rF != Unsat
	if !tOK && !fOK {
		panic(pathAbort{"infeasible"})
	}
	// prefer the side the model witnesses so it stays valid
	takeT := tOK
	if tOK && fOK && in.model != nil {
		takeT = in.evalModel(cond)
	}
	if tOK && fOK {
		other := int64(0)
		if !takeT {
			other = 1
		}
		alt := append(append([]Decision(nil), in.decs...), Decision{Kind: 'b', Val: other})
		in.newWork = append(in.newWork, alt)
		in.res.Forks++
	}
	if takeT {
		in.decs = append(in.decs, Decision{Kind: 'b', Val: 1})
		in.pos++
		in.assumeTerm(cond)
		return true
	}
	in.decs = append(in.decs, Decision{Kind: 'b', Val: 0})
	in.pos++
	in.assumeTerm(in.ctx.Not(cond))
	return false
}

// evalModel evaluates a boolean term under the cached model (variables the
// model does not mention are unconstrained by the path condition: use 0).
func (in *Interp) evalModel(t *Term) bool {
	return Eval(t, in.model, map[*Term]uint64{}) == 1
}

// feasibleM checks sat(pc ∧ t); with keep it stores the model as the model of
// the path condition when t is then assumed by the caller.
func (in *Interp) checkDeadline() {
	if !in.deadline.IsZero() && time.Now().After(in.deadline) {
		panic(engineErr{"per-path time budget exhausted @ " + in.where()})
	}
}

func (in *Interp) feasibleM(t *Term, keep bool) Result {
	in.checkDeadline()
	if t.IsConst() {
		if t.val == 1 {
			return Sat
		}
		return Unsat
	}
	if !keep {
		r, _ := in.sol.Check(t, nil)
		return r
	}
	r, m := in.sol.Check(t, in.ctx.vars)
	if r == Sat && m != nil {
		in.model = m
		in.modelFor = t
	}
	return r
}

// choose forks over the concrete values lo..hi without consulting the solver.
func (in *Interp) choose(lo, hi int64) int64 {
	if lo > hi {
		panic(pathAbort{"empty choose"})
	}
	if in.pos < len(in.decs) {
		d := in.decs[in.pos]
		in.pos++
		if d.Kind != 'c' {
			in.fail("decision replay mismatch (expected choose)")
		}
		return d.Val
	}
	for v := hi; v > lo; v-- {
		alt := append(append([]Decision(nil), in.decs...), Decision{Kind: 'c', Val: v})
		in.newWork = append(in.newWork, alt)
	}
	in.decs = append(in.decs, Decision{Kind: 'c', Val: lo})
	in.pos++
	return lo
}

// concretize forks over the feasible values of a symbolic term.
func (in *Interp) concretize(t *Term, why string) int64 {
	if t.IsConst() {
		return signExt(t.val, t.w)
	}
	if in.pureMode {
		panic(ifConvAbort{})
	}
	if in.concrete {
		in.fail("symbolic value in concrete mode (%s)", why)
	}
	if v, ok := in.evalPinned(t); ok {
		return signExt(v, t.w)
	}
	pin := func(v int64) int64 {
		in.assumeTerm(in.ctx.Eq(t, in.ctx.Const(t.w, uint64(v))))
		in.pin(t, uint64(v))
		return v
	}
	var excl []int64
	if in.pos < len(in.decs) {
		d := in.decs[in.pos]
		if d.Kind == 'c' {
			in.pos++
			return pin(d.Val)
		}
		if d.Kind != 'o' {
			in.fail("decision replay mismatch (expected concretize)")
		}
		excl = d.Excl
		in.decs = in.decs[:in.pos] // drop the open marker, replaced below
	}
	if len(excl) >= in.cfg.MaxConc {
		in.fail("more than %d concretisation candidates (%s)", in.cfg.MaxConc, why)
	}
	// find a value different from the excluded ones
	q := in.ctx.Bool(true)
	for _, e := range excl {
		q = in.ctx.And(q, in.ctx.Not(in.ctx.Eq(t, in.ctx.Const(t.w, uint64(e)))))
	}
	in.checkDeadline()
	tq := time.Now()
	r, m := in.sol.Check(q, []*Term{in.valueVar(t)})
	if d := os.Getenv("GOSYM_DUMP"); d != "" && time.Since(tq) > time.Second {
		decls, names := Script(append(append([]*Term{}, in.pc...), q, t))
		var sb strings.Builder
		sb.WriteString("(set-logic ALL)\n" + decls)
		for _, n := range names[:len(names)-1] {
			sb.WriteString("(assert " + n + ")\n")
		}
		sb.WriteString("(check-sat)\n(get-value (" + names[len(names)-1] + "))\n")
		os.WriteFile(fmt.Sprintf("%s/slow_%d_%s.smt2", d, t.id, r), []byte(sb.String()), 0644)
	}
	if r == Unsat {
		panic(pathAbort{"no more concretisation candidates"})
	}
	if r == Unknown {
		if d := os.Getenv("GOSYM_DUMP"); d != "" {
			decls, names := Script(append(append([]*Term{}, in.pc...), q, t))
			var sb strings.Builder
			sb.WriteString("(set-logic ALL)\n" + decls)
			for _, n := range names[:len(names)-1] {
				sb.WriteString("(assert " + n + ")\n")
			}
			sb.WriteString("(check-sat)\n(get-value (" + names[len(names)-1] + "))\n")
			os.WriteFile(fmt.Sprintf("%s/conc_%d.smt2", d, t.id), []byte(sb.String()), 0644)
		}
		in.fail("solver unknown while concretising (%s)", why)
	}
	v := signExt(m[in.valueVar(t).name], t.w)
	in.res.Concretizations++
	alt := append(append([]Decision(nil), in.decs...), Decision{Kind: 'o', Excl: append(append([]int64(nil), excl...), v)})
	in.newWork = append(in.newWork, alt)
	in.decs = append(in.decs, Decision{Kind: 'c', Val: v})
	in.pos++
	return pin(v)
}

// concretizeRanged case-splits t over lo..hi (no model enumeration); the range
// is checked to be complete once, on the path that opens the split.
func (in *Interp) concretizeRanged(t *Term, lo, hi int64, why string) int64 {
	c := in.ctx
	opening := in.pos >= len(in.decs)
	if opening {
		k, _ := scalarKindOfWidth(t.w)
		_ = k
		out := c.Or(c.Slt(c.signed64(t), c.Const(64, uint64(lo))), c.Slt(c.Const(64, uint64(hi)), c.signed64(t)))
		in.checkDeadline()
		if r, _ := in.sol.Check(out, nil); r != Unsat {
			in.fail("ranged concretisation: value may lie outside %d..%d (%s, solver says %s)", lo, hi, why, r)
		}
	}
	v := in.choose(lo, hi)
	eq := c.Eq(t, c.Const(t.w, uint64(v)))
	if in.feasible(eq) == Unsat {
		panic(pathAbort{"ranged concretisation value infeasible"})
	}
	in.assumeTerm(eq)
	in.pin(t, uint64(v))
	in.res.Concretizations++
	return v
}

func scalarKindOfWidth(w uint8) (scalarKind, bool) { return scalarKind{w: w}, true }

// signed64 widens an unsigned quantity (lengths, widths) to 64 bits for range checks.
func (c *Ctx) signed64(t *Term) *Term {
	if t.w == 64 {
		return t
	}
	return c.Zext(t, 64)
}

func (in *Interp) pin(t *Term, v uint64) {
	if in.pinned == nil {
		in.pinned = map[*Term]uint64{}
	}
	for {
		in.pinned[t] = v & mask(t.w)
		// a pinned zero/sign extension pins its operand too
		if (t.op == OpZext || t.op == OpSext) && !t.a.IsConst() {
			t = t.a
			continue
		}
		return
	}
}

// valueVar returns a variable constrained equal to t so its model value can be read.
func (in *Interp) valueVar(t *Term) *Term {
	if t.op == OpVar {
		return t
	}
	name := fmt.Sprintf("cv!%d", t.id)
	v := in.ctx.Var(name, t.w)
	key := "cvdef:" + name
	if _, ok := in.ghost[key]; !ok {
		in.ghost[key] = true
		// definitional constraint: does not restrict the path
		e := in.ctx.Eq(v, t)
		in.pc = append(in.pc, e)
		in.sol.Assert(e)
	}
	return v
}

// ---------- package init ----------

func (in *Interp) ensureInit(pkg *ssa.Package) {
	if in.inited[pkg] || (in.base != nil && in.base.inited[pkg]) {
		return
	}
	in.inited[pkg] = true
	initFn := pkg.Func("init")
	if initFn == nil || initFn.Blocks == nil {
		return
	}
	savedT, savedStack, savedPure := in.tolerant, in.stack, in.pureMode
	in.pureMode = false
	in.tolerant = len(in.stack) + 1
	defer func() {
		in.tolerant, in.stack, in.pureMode = savedT, savedStack, savedPure
	}()
	func() {
		defer func() {
			if r := recover(); r != nil {
				switch r.(type) {
				case engineErr, *goPanic:
					// init aborted half way: remaining globals stay zero; remember
					in.initErrors = append(in.initErrors, fmt.Sprintf("%s: %v", pkg.Pkg.Path(), r))
				default:
					panic(r)
				}
			}
		}()
		in.callFunction(initFn, nil, nil)
	}()
}

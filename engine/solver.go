package main

// Bridge to SMT solvers. One persistent `z3 -in` per worker for the many small
// feasibility queries of a path (push/pop); one-shot runs of z3 5.1 and cvc5
// as a portfolio for obligations the primary solver answers `unknown`.

import (
	"bufio"
	"bytes"
	"fmt"
	"io"
	"os"
	"os/exec"
	"strconv"
	"strings"
	"sync/atomic"
	"time"
)

type Result int

const (
	Unsat Result = iota
	Sat
	Unknown
)

func (r Result) String() string { return [...]string{"unsat", "sat", "unknown"}[r] }

type SolverStats struct {
	Queries    int64
	SatN       int64
	UnsatN     int64
	UnknownN   int64
	Fallbacks  int64
	WallNs     int64
	FallbackNs int64
	Restarts   int64
	Over10ms   int64
	Over100ms  int64
	Over1s     int64
}

var gStats SolverStats

type Solver struct {
	cmd    *exec.Cmd
	in     io.WriteCloser
	out    *bufio.Reader
	gen    uint32 // bumped on every path scope so Term.smt caches expire
	depth  int
	log    *os.File
	tmo    int // ms per query
	path   []*Term
	pathOK bool
	dead   bool
}

var solverGen uint32
var dumpSeq int64

// z3 5.1 decides the bit-vector/ite queries of this code base 10-40x faster
// than 4.8.12 in incremental mode (measured on DELTA_BINARY_PACKED widths).
var primarySolver = "z3-new"

// In a push/pop context plain (check-sat) uses z3's incremental core, which was
// 10x slower (and often unknown at 5 s) on the bit-vector/ite queries of the
// delta encodings; the default tactic applied to the current assertion stack
// gives one-shot performance without restarting the process.
var checkSatCmd = "(check-sat-using default)\n"

func NewSolver(timeoutMs int) *Solver {
	s := &Solver{tmo: timeoutMs}
	s.start()
	return s
}

func (s *Solver) start() {
	s.cmd = exec.Command(primarySolver, "-in", "-smt2")
	in, _ := s.cmd.StdinPipe()
	out, _ := s.cmd.StdoutPipe()
	s.cmd.Stderr = s.cmd.Stdout
	if err := s.cmd.Start(); err != nil {
		panic(err)
	}
	s.in = in
	s.out = bufio.NewReaderSize(out, 1<<16)
	s.dead = false
	s.depth = 0
	if d := os.Getenv("GOSYM_TRANSCRIPT"); d != "" && s.log == nil {
		s.log, _ = os.Create(fmt.Sprintf("%s/transcript_%d.smt2", d, atomic.AddInt64(&dumpSeq, 1)))
	}
	s.send("(set-option :print-success false)\n")
	s.send(fmt.Sprintf("(set-option :timeout %d)\n", s.tmo))
	s.send("(set-logic ALL)\n")
}

func (s *Solver) Close() {
	if s.cmd != nil && s.cmd.Process != nil {
		s.in.Close()
		s.cmd.Process.Kill()
		s.cmd.Wait()
	}
}

func (s *Solver) restart() {
	atomic.AddInt64(&gStats.Restarts, 1)
	s.Close()
	s.start()
}

func (s *Solver) send(str string) {
	if s.log != nil {
		s.log.WriteString(str)
	}
	if _, err := io.WriteString(s.in, str); err != nil {
		s.dead = true
	}
}

// readLine reads one answer line with a hard wall-clock limit.
func (s *Solver) readLine(limit time.Duration) (string, bool) {
	type res struct {
		s   string
		err error
	}
	ch := make(chan res, 1)
	go func() {
		l, err := s.out.ReadString('\n')
		ch <- res{l, err}
	}()
	select {
	case r := <-ch:
		if r.err != nil {
			s.dead = true
			return "", false
		}
		return strings.TrimSpace(r.s), true
	case <-time.After(limit):
		s.dead = true
		return "", false
	}
}

// BeginPath opens a fresh scope: all declarations/definitions made while
// exploring one path are popped at EndPath.
func (s *Solver) BeginPath() {
	if s.dead {
		s.restart()
	}
	s.gen = atomic.AddUint32(&solverGen, 1)
	s.send("(push)\n")
	s.depth = 1
	s.path = s.path[:0]
}

func (s *Solver) EndPath() {
	if s.dead {
		s.restart()
		return
	}
	s.send("(pop)\n")
	s.depth = 0
}

// name emits definitions needed for t at the current (path) level and returns
// the expression string.
func (s *Solver) name(t *Term, sb *strings.Builder) string {
	if t.smtGen == s.gen && t.smt != "" {
		return t.smt
	}
	var str string
	switch t.op {
	case OpConst:
		str = constSMT(t)
	case OpVar:
		fmt.Fprintf(sb, "(declare-const %s %s)\n", t.name, sortOf(t.w))
		str = t.name
	default:
		e := smtNode(t, func(x *Term) string { return s.name(x, sb) })
		if t.size <= inlineSize {
			str = e
		} else {
			str = "t!" + strconv.Itoa(int(t.id))
			fmt.Fprintf(sb, "(define-fun %s () %s %s)\n", str, sortOf(t.w), e)
		}
	}
	t.smt = str
	t.smtGen = s.gen
	return str
}

// Assert adds a conjunct to the path condition.
func (s *Solver) Assert(t *Term) {
	s.path = append(s.path, t)
	if s.dead {
		return
	}
	var sb strings.Builder
	n := s.name(t, &sb)
	sb.WriteString("(assert ")
	sb.WriteString(n)
	sb.WriteString(")\n")
	s.send(sb.String())
}

func (s *Solver) recover() {
	// restart and re-assert the current path condition
	s.restart()
	s.gen = atomic.AddUint32(&solverGen, 1)
	s.send("(push)\n")
	s.depth = 1
	p := s.path
	s.path = nil
	for _, t := range p {
		s.Assert(t)
	}
}

// Check decides sat(path ∧ extra). If wantModel, returns values for vars.
func (s *Solver) Check(extra *Term, vars []*Term) (res Result, mm map[string]uint64) {
	t0 := time.Now()
	defer func() {
		atomic.AddInt64(&gStats.WallNs, int64(time.Since(t0)))
		switch el := time.Since(t0); {
		case el > time.Second:
			atomic.AddInt64(&gStats.Over1s, 1)
		case el > 100*time.Millisecond:
			atomic.AddInt64(&gStats.Over100ms, 1)
		case el > 10*time.Millisecond:
			atomic.AddInt64(&gStats.Over10ms, 1)
		}
		if d := os.Getenv("GOSYM_DUMP"); d != "" && time.Since(t0) > time.Second {
			roots := append([]*Term{}, s.path...)
			if extra != nil {
				roots = append(roots, extra)
			}
			decls, names := Script(roots)
			var sb strings.Builder
			sb.WriteString("(set-logic ALL)\n" + decls)
			for _, n := range names {
				sb.WriteString("(assert " + n + ")\n")
			}
			sb.WriteString("(check-sat)\n")
			os.WriteFile(fmt.Sprintf("%s/q_%d_%s_%dms.smt2", d, atomic.AddInt64(&dumpSeq, 1), res, time.Since(t0).Milliseconds()), []byte(sb.String()), 0644)
		}
	}()
	atomic.AddInt64(&gStats.Queries, 1)
	for attempt := 0; attempt < 2; attempt++ {
		if s.dead {
			s.recover()
		}
		var sb strings.Builder
		var n string
		if extra != nil {
			n = s.name(extra, &sb)
		}
		// make sure vars are declared at path level
		for _, v := range vars {
			s.name(v, &sb)
		}
		sb.WriteString("(push)\n")
		if extra != nil {
			sb.WriteString("(assert " + n + ")\n")
		}
		// fast incremental attempt first, then the default tactic with the full budget
		sb.WriteString("(set-option :timeout 200)\n(check-sat)\n")
		s.send(sb.String())
		line, ok := s.readAnswer()
		if ok && line != "sat" && line != "unsat" && !s.dead {
			s.send(fmt.Sprintf("(set-option :timeout %d)\n%s", s.tmo, checkSatCmd))
			line, ok = s.readAnswer()
		}
		if !ok {
			// solver hung or died: count as unknown after one retry
			s.dead = true
			if attempt == 0 {
				continue
			}
			atomic.AddInt64(&gStats.UnknownN, 1)
			return Unknown, nil
		}
		var res Result
		switch line {
		case "sat":
			res = Sat
		case "unsat":
			res = Unsat
		default:
			res = Unknown
		}
		var model map[string]uint64
		if res == Sat && len(vars) > 0 {
			model = s.getValues(vars)
		}
		s.send("(pop)\n")
		switch res {
		case Sat:
			atomic.AddInt64(&gStats.SatN, 1)
		case Unsat:
			atomic.AddInt64(&gStats.UnsatN, 1)
		default:
			atomic.AddInt64(&gStats.UnknownN, 1)
		}
		return res, model
	}
	return Unknown, nil
}

func (s *Solver) readAnswer() (string, bool) {
	limit := time.Duration(s.tmo)*time.Millisecond*2 + 5*time.Second
	for {
		line, ok := s.readLine(limit)
		if !ok {
			return "", false
		}
		if line == "" {
			continue
		}
		if strings.HasPrefix(line, "(error") {
			// any error line makes the query inconclusive
			fmt.Fprintf(os.Stderr, "solver error: %s\n", line)
			// drain: the check-sat answer may still follow; treat as unknown
			s.dead = true
			return "unknown", true
		}
		return line, true
	}
}

func (s *Solver) getValues(vars []*Term) map[string]uint64 {
	m := map[string]uint64{}
	for i := 0; i < len(vars); i += 50 {
		j := i + 50
		if j > len(vars) {
			j = len(vars)
		}
		var sb strings.Builder
		sb.WriteString("(get-value (")
		for _, v := range vars[i:j] {
			sb.WriteString(v.name)
			sb.WriteByte(' ')
		}
		sb.WriteString("))\n")
		s.send(sb.String())
		// answer: ((a #x..) (b #b..) ...) possibly over several lines
		var buf strings.Builder
		depth := 0
		started := false
		for {
			line, ok := s.readLine(10 * time.Second)
			if !ok {
				return m
			}
			buf.WriteString(line)
			buf.WriteByte(' ')
			for _, ch := range line {
				if ch == '(' {
					depth++
					started = true
				} else if ch == ')' {
					depth--
				}
			}
			if started && depth <= 0 {
				break
			}
		}
		parseValues(buf.String(), m)
	}
	return m
}

func parseValues(s string, m map[string]uint64) {
	// tokens: ( ( name value ) ... )
	s = strings.NewReplacer("(", " ( ", ")", " ) ").Replace(s)
	f := strings.Fields(s)
	for i := 0; i+1 < len(f); i++ {
		if f[i] == "(" && i+3 < len(f) && f[i+1] != "(" && f[i+3] == ")" {
			name, val := f[i+1], f[i+2]
			switch {
			case strings.HasPrefix(val, "#x"):
				v, _ := strconv.ParseUint(val[2:], 16, 64)
				m[name] = v
			case strings.HasPrefix(val, "#b"):
				v, _ := strconv.ParseUint(val[2:], 2, 64)
				m[name] = v
			case val == "true":
				m[name] = 1
			case val == "false":
				m[name] = 0
			}
		}
	}
}

// ---------- one-shot portfolio ----------

type extSolver struct {
	name string
	args []string
	z3   bool
}

var portfolio = []extSolver{
	{"z3-4.8.12", []string{"z3", "-in", "-smt2"}, true},
	{"cvc5", []string{"cvc5", "--lang=smt2", "--produce-models"}, false},
	{"cvc5-bvint", []string{"cvc5", "--lang=smt2", "--produce-models", "--solve-bv-as-int=sum"}, false},
}

// OneShot runs a standalone script on the named external solver.
func OneShot(es extSolver, pc []*Term, extra *Term, vars []*Term, timeout time.Duration) (Result, map[string]uint64) {
	t0 := time.Now()
	defer func() { atomic.AddInt64(&gStats.FallbackNs, int64(time.Since(t0))) }()
	atomic.AddInt64(&gStats.Fallbacks, 1)
	roots := append([]*Term{}, pc...)
	if extra != nil {
		roots = append(roots, extra)
	}
	roots = append(roots, vars...)
	if !es.z3 {
		seen := map[*Term]bool{}
		for _, r := range roots {
			if usesZ3Only(r, seen) {
				return Unknown, nil
			}
		}
	}
	decls, names := Script(roots)
	var sb strings.Builder
	sb.WriteString("(set-logic ALL)\n")
	if !es.z3 {
		sb.WriteString("(set-option :produce-models true)\n")
	}
	sb.WriteString(decls)
	na := len(pc)
	if extra != nil {
		na++
	}
	for _, n := range names[:na] {
		sb.WriteString("(assert " + n + ")\n")
	}
	sb.WriteString("(check-sat)\n")
	if len(vars) > 0 {
		sb.WriteString("(get-value (")
		for _, v := range vars {
			sb.WriteString(v.name + " ")
		}
		sb.WriteString("))\n")
	}
	cmd := exec.Command(es.args[0], es.args[1:]...)
	cmd.Stdin = strings.NewReader(sb.String())
	var out bytes.Buffer
	cmd.Stdout = &out
	cmd.Stderr = &out
	if err := cmd.Start(); err != nil {
		return Unknown, nil
	}
	done := make(chan error, 1)
	go func() { done <- cmd.Wait() }()
	select {
	case <-done:
	case <-time.After(timeout):
		cmd.Process.Kill()
		<-done
		return Unknown, nil
	}
	o := out.String()
	if strings.Contains(o, "(error") {
		// sat answers followed by a get-value error are still sat; anything else is inconclusive
		first := strings.TrimSpace(strings.SplitN(o, "\n", 2)[0])
		if first != "unsat" {
			return Unknown, nil
		}
	}
	lines := strings.SplitN(o, "\n", 2)
	switch strings.TrimSpace(lines[0]) {
	case "unsat":
		return Unsat, nil
	case "sat":
		m := map[string]uint64{}
		if len(lines) > 1 {
			parseValues(lines[1], m)
		}
		return Sat, m
	}
	return Unknown, nil
}

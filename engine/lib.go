package main

// Models of library functions that have no Go body in SSA (assembly, runtime
// linknames) or that are replaced by contract stubs. Each entry is part of the
// trusted base and is listed in evidence.

import (
	"bytes"
	"fmt"
	"go/types"
	"hash/crc32"
	"math"
	"math/bits"
	"strings"

	"golang.org/x/tools/go/ssa"
)

type libFn func(in *Interp, fn *ssa.Function, args []Value) Value

var libIntrinsics map[string]libFn

func init() {
	libIntrinsics = map[string]libFn{}
	reg := func(names string, f libFn) {
		for _, n := range strings.Fields(names) {
			libIntrinsics[n] = f
		}
	}
	nop := func(in *Interp, fn *ssa.Function, args []Value) Value { return in.zeroResults(fn) }

	// ---- math/bits ----
	for _, w := range []uint8{8, 16, 32, 64} {
		w := w
		sfx := fmt.Sprint(w)
		reg("math/bits.Len"+sfx, func(in *Interp, fn *ssa.Function, args []Value) Value { return in.bitsLen(args[0].(*Term)) })
		reg("math/bits.LeadingZeros"+sfx, func(in *Interp, fn *ssa.Function, args []Value) Value {
			return in.ctx.Sub(in.ctx.Const(64, uint64(w)), in.bitsLen(args[0].(*Term)))
		})
		reg("math/bits.TrailingZeros"+sfx, func(in *Interp, fn *ssa.Function, args []Value) Value { return in.bitsTz(args[0].(*Term)) })
	}
	reg("math/bits.Len", func(in *Interp, fn *ssa.Function, args []Value) Value { return in.bitsLen(args[0].(*Term)) })
	reg("math/bits.LeadingZeros", func(in *Interp, fn *ssa.Function, args []Value) Value {
		return in.ctx.Sub(in.ctx.Const(64, 64), in.bitsLen(args[0].(*Term)))
	})
	reg("math/bits.TrailingZeros", func(in *Interp, fn *ssa.Function, args []Value) Value { return in.bitsTz(args[0].(*Term)) })
	reg("math/bits.ReverseBytes64 math/bits.ReverseBytes32 math/bits.ReverseBytes16 math/bits.ReverseBytes", func(in *Interp, fn *ssa.Function, args []Value) Value {
		x := args[0].(*Term)
		n := int(x.w / 8)
		var r *Term
		for i := 0; i < n; i++ {
			b := in.ctx.Extract(x, uint8(8*i+7), uint8(8*i))
			if r == nil {
				r = b
			} else {
				r = in.ctx.Concat(r, b)
			}
		}
		return r
	})

	// ---- internal/bytealg, bytes, strings (asm-backed) ----
	reg("internal/bytealg.IndexByte bytes.IndexByte", func(in *Interp, fn *ssa.Function, args []Value) Value {
		s := args[0].(SliceV)
		return in.indexByte(s.P, s.Len, args[1].(*Term))
	})
	reg("internal/bytealg.IndexByteString strings.IndexByte", func(in *Interp, fn *ssa.Function, args []Value) Value {
		s := args[0].(StrV)
		return in.indexByte(s.P, s.Len, args[1].(*Term))
	})
	reg("internal/bytealg.Equal bytes.Equal", func(in *Interp, fn *ssa.Function, args []Value) Value {
		a, b := args[0].(SliceV), args[1].(SliceV)
		if a.Len != b.Len {
			return in.ctx.Bool(false)
		}
		return in.bytesEq(a.P, b.P, a.Len)
	})
	reg("internal/bytealg.Compare bytes.Compare", func(in *Interp, fn *ssa.Function, args []Value) Value {
		a, b := args[0].(SliceV), args[1].(SliceV)
		return in.bytesCmp(a.P, a.Len, b.P, b.Len)
	})
	reg("internal/bytealg.CompareString strings.Compare", func(in *Interp, fn *ssa.Function, args []Value) Value {
		a, b := args[0].(StrV), args[1].(StrV)
		return in.bytesCmp(a.P, a.Len, b.P, b.Len)
	})
	reg("internal/bytealg.Count", func(in *Interp, fn *ssa.Function, args []Value) Value {
		s := args[0].(SliceV)
		return in.countByte(s.P, s.Len, args[1].(*Term))
	})
	reg("internal/bytealg.CountString", func(in *Interp, fn *ssa.Function, args []Value) Value {
		s := args[0].(StrV)
		return in.countByte(s.P, s.Len, args[1].(*Term))
	})
	reg("internal/bytealg.MakeNoZero", func(in *Interp, fn *ssa.Function, args []Value) Value {
		n := int(in.concretize(args[0].(*Term), "MakeNoZero"))
		p := in.newObject(n, types.Typ[types.Uint8], "MakeNoZero")
		return SliceV{p, n, n}
	})
	reg("internal/bytealg.Index internal/bytealg.IndexString", func(in *Interp, fn *ssa.Function, args []Value) Value {
		// concrete operands only (tag and path parsing)
		get := func(v Value) ([]byte, bool) {
			var p Ptr
			var n int
			switch x := v.(type) {
			case SliceV:
				p, n = x.P, x.Len
			case StrV:
				p, n = x.P, x.Len
			}
			out := make([]byte, n)
			for i, b := range in.bytesOf(p, n) {
				if !b.IsConst() {
					return nil, false
				}
				out[i] = byte(b.val)
			}
			return out, true
		}
		a, ok1 := get(args[0])
		b, ok2 := get(args[1])
		if !ok1 || !ok2 {
			in.fail("bytealg.Index on symbolic bytes is not modelled")
		}
		return in.ctx.Const(64, uint64(int64(bytes.Index(a, b))))
	})

	// ---- hash/crc32 ----
	reg("hash/crc32.Update", func(in *Interp, fn *ssa.Function, args []Value) Value {
		s := args[2].(SliceV)
		return in.crc32Update(args[0].(*Term), args[1].(Ptr), s.P, s.Len)
	})
	reg("hash/crc32.Checksum", func(in *Interp, fn *ssa.Function, args []Value) Value {
		s := args[0].(SliceV)
		return in.crc32Update(in.ctx.Const(32, 0), args[1].(Ptr), s.P, s.Len)
	})
	reg("hash/crc32.ChecksumIEEE", func(in *Interp, fn *ssa.Function, args []Value) Value {
		s := args[0].(SliceV)
		return in.crc32Update(in.ctx.Const(32, 0), Ptr{}, s.P, s.Len)
	})

	// ---- sync ----
	reg("sync.Mutex.Lock sync.Mutex.Unlock sync.RWMutex.Lock sync.RWMutex.Unlock sync.RWMutex.RLock sync.RWMutex.RUnlock sync.WaitGroup.Add sync.WaitGroup.Done sync.WaitGroup.Wait", nop)
	reg("sync.Mutex.TryLock", func(in *Interp, fn *ssa.Function, args []Value) Value { return in.ctx.Bool(true) })
	reg("sync.Once.Do", func(in *Interp, fn *ssa.Function, args []Value) Value {
		p := args[0].(Ptr)
		if in.onceDone[p] {
			return nil
		}
		in.onceDone[p] = true
		in.callValue(args[1], nil, nil)
		return nil
	})
	reg("sync.Pool.Get", func(in *Interp, fn *ssa.Function, args []Value) Value { return in.poolGet(fn, args[0].(Ptr)) })
	reg("sync.Pool.Put", func(in *Interp, fn *ssa.Function, args []Value) Value {
		in.poolPut(args[0].(Ptr), args[1])
		return nil
	})

	// ---- sync.Map (sequential) ----
	smap := func(in *Interp, p Ptr) *MapObj {
		m := in.syncMaps[p]
		if m == nil {
			m = &MapObj{kvals: map[string]Value{}, vals: map[string]Value{}}
			in.syncMaps[p] = m
		}
		return m
	}
	reg("sync.Map.Load", func(in *Interp, fn *ssa.Function, args []Value) Value {
		m := smap(in, args[0].(Ptr))
		if v, ok := m.vals[in.keyString(args[1])]; ok {
			return TupleV{v, in.ctx.Bool(true)}
		}
		return TupleV{&IfaceV{}, in.ctx.Bool(false)}
	})
	reg("sync.Map.Store", func(in *Interp, fn *ssa.Function, args []Value) Value {
		m := smap(in, args[0].(Ptr))
		ks := in.keyString(args[1])
		if _, ok := m.vals[ks]; !ok {
			m.keys = append(m.keys, ks)
			m.kvals[ks] = args[1]
		}
		m.vals[ks] = args[2]
		return nil
	})
	reg("sync.Map.LoadOrStore", func(in *Interp, fn *ssa.Function, args []Value) Value {
		m := smap(in, args[0].(Ptr))
		ks := in.keyString(args[1])
		if v, ok := m.vals[ks]; ok {
			return TupleV{v, in.ctx.Bool(true)}
		}
		m.keys = append(m.keys, ks)
		m.kvals[ks] = args[1]
		m.vals[ks] = args[2]
		return TupleV{args[2], in.ctx.Bool(false)}
	})
	reg("sync.Map.Delete sync.Map.LoadAndDelete", func(in *Interp, fn *ssa.Function, args []Value) Value {
		m := smap(in, args[0].(Ptr))
		ks := in.keyString(args[1])
		v, ok := m.vals[ks]
		if ok {
			delete(m.vals, ks)
			delete(m.kvals, ks)
			for i, x := range m.keys {
				if x == ks {
					m.keys = append(m.keys[:i:i], m.keys[i+1:]...)
					break
				}
			}
		}
		if fn.Name() == "Delete" {
			return nil
		}
		if !ok {
			v = &IfaceV{}
		}
		return TupleV{v, in.ctx.Bool(ok)}
	})
	reg("sync.Map.Range", func(in *Interp, fn *ssa.Function, args []Value) Value {
		m := smap(in, args[0].(Ptr))
		for _, ks := range append([]string(nil), m.keys...) {
			v, ok := m.vals[ks]
			if !ok {
				continue
			}
			r := in.callValue(args[1], []Value{m.kvals[ks], v}, nil).(*Term)
			if !in.branch(r) {
				break
			}
		}
		return nil
	})

	// ---- sync/atomic (sequential) ----
	for _, t := range []struct {
		n string
		b int
	}{{"Int32", 4}, {"Uint32", 4}, {"Int64", 8}, {"Uint64", 8}, {"Uintptr", 8}} {
		t := t
		reg("sync/atomic.Load"+t.n, func(in *Interp, fn *ssa.Function, args []Value) Value { return in.loadBits(args[0].(Ptr), t.b) })
		reg("sync/atomic.Store"+t.n, func(in *Interp, fn *ssa.Function, args []Value) Value {
			in.storeBits(args[0].(Ptr), t.b, args[1].(*Term))
			return nil
		})
		reg("sync/atomic.Add"+t.n, func(in *Interp, fn *ssa.Function, args []Value) Value {
			p := args[0].(Ptr)
			v := in.ctx.Add(in.loadBits(p, t.b), args[1].(*Term))
			in.storeBits(p, t.b, v)
			return v
		})
		reg("sync/atomic.Swap"+t.n, func(in *Interp, fn *ssa.Function, args []Value) Value {
			p := args[0].(Ptr)
			old := in.loadBits(p, t.b)
			in.storeBits(p, t.b, args[1].(*Term))
			return old
		})
		reg("sync/atomic.CompareAndSwap"+t.n, func(in *Interp, fn *ssa.Function, args []Value) Value {
			p := args[0].(Ptr)
			old := in.loadBits(p, t.b)
			if in.branch(in.ctx.Eq(old, args[1].(*Term))) {
				in.storeBits(p, t.b, args[2].(*Term))
				return in.ctx.Bool(true)
			}
			return in.ctx.Bool(false)
		})
		reg("sync/atomic.And"+t.n, func(in *Interp, fn *ssa.Function, args []Value) Value {
			p := args[0].(Ptr)
			old := in.loadBits(p, t.b)
			in.storeBits(p, t.b, in.ctx.BvAnd(old, args[1].(*Term)))
			return old
		})
		reg("sync/atomic.Or"+t.n, func(in *Interp, fn *ssa.Function, args []Value) Value {
			p := args[0].(Ptr)
			old := in.loadBits(p, t.b)
			in.storeBits(p, t.b, in.ctx.BvOr(old, args[1].(*Term)))
			return old
		})
	}
	reg("sync/atomic.LoadPointer", func(in *Interp, fn *ssa.Function, args []Value) Value { return addrPtr(in.loadWord(args[0].(Ptr))) })
	reg("sync/atomic.StorePointer", func(in *Interp, fn *ssa.Function, args []Value) Value {
		in.storeWord(args[0].(Ptr), ptrAddr(args[1].(Ptr)))
		return nil
	})
	reg("sync/atomic.SwapPointer", func(in *Interp, fn *ssa.Function, args []Value) Value {
		old := addrPtr(in.loadWord(args[0].(Ptr)))
		in.storeWord(args[0].(Ptr), ptrAddr(args[1].(Ptr)))
		return old
	})
	reg("sync/atomic.CompareAndSwapPointer", func(in *Interp, fn *ssa.Function, args []Value) Value {
		old := in.loadWord(args[0].(Ptr))
		if old == ptrAddr(args[1].(Ptr)) {
			in.storeWord(args[0].(Ptr), ptrAddr(args[2].(Ptr)))
			return in.ctx.Bool(true)
		}
		return in.ctx.Bool(false)
	})
	reg("sync/atomic.Value.Load", func(in *Interp, fn *ssa.Function, args []Value) Value {
		if v, ok := in.atomicVals[args[0].(Ptr)]; ok {
			return v
		}
		return &IfaceV{}
	})
	reg("sync/atomic.Value.Store", func(in *Interp, fn *ssa.Function, args []Value) Value {
		in.atomicVals[args[0].(Ptr)] = args[1]
		return nil
	})

	// ---- math: assembly-backed functions, concrete arguments only ----
	for name, f := range map[string]func(float64) float64{
		"math.archLog": math.Log, "math.archExp": math.Exp, "math.archFloor": math.Floor, "math.archCeil": math.Ceil,
		"math.archTrunc": math.Trunc, "math.archSqrt": math.Sqrt, "math.archLog10": math.Log10, "math.archLog2": math.Log2,
	} {
		f := f
		name := name
		reg(name, func(in *Interp, fn *ssa.Function, args []Value) Value {
			x := args[0].(*Term)
			if !x.IsConst() {
				in.fail("%s of a symbolic float is not modelled", name)
			}
			return in.ctx.Const(64, math.Float64bits(f(math.Float64frombits(x.val))))
		})
	}

	// ---- runtime & friends ----
	reg("runtime.KeepAlive runtime.SetFinalizer runtime.GC runtime.Gosched runtime/debug.SetGCPercent runtime/debug.FreeOSMemory", nop)
	reg("runtime.GOMAXPROCS runtime.NumCPU", func(in *Interp, fn *ssa.Function, args []Value) Value { return in.ctx.Const(64, 1) })
	reg("internal/race.Enable internal/race.Disable internal/race.Acquire internal/race.Release internal/race.ReleaseMerge internal/race.Read internal/race.Write internal/race.ReadRange internal/race.WriteRange", nop)
	reg("os.Getenv", func(in *Interp, fn *ssa.Function, args []Value) Value { return StrV{} })
	reg("internal/godebug.Setting.Value", func(in *Interp, fn *ssa.Function, args []Value) Value { return StrV{} })
	reg("internal/godebug.Setting.IncNonDefault", nop)
	reg("internal/cpu.Initialize", nop)

	reg("runtime/debug.ReadBuildInfo", func(in *Interp, fn *ssa.Function, args []Value) Value {
		return TupleV{Ptr{}, in.ctx.Bool(false)}
	})
	// ---- fmt / errors / log ----
	reg("fmt.Errorf", func(in *Interp, fn *ssa.Function, args []Value) Value { return in.fmtErrorf(args) })
	reg("fmt.Sprintf", func(in *Interp, fn *ssa.Function, args []Value) Value {
		return in.fmtSprintf(args[0].(StrV), args[1].(SliceV))
	})
	reg("fmt.Sprint fmt.Sprintln", func(in *Interp, fn *ssa.Function, args []Value) Value { return in.constString("<fmt.Sprint>") })
	reg("fmt.Fprintf fmt.Fprint fmt.Fprintln fmt.Printf fmt.Println fmt.Print", func(in *Interp, fn *ssa.Function, args []Value) Value {
		return TupleV{in.ctx.Const(64, 0), &IfaceV{}}
	})
	reg("log.Printf log.Println log.Print log.Logger.Printf log.Logger.Println log.Logger.Print", nop)
	reg("errors.Is", func(in *Interp, fn *ssa.Function, args []Value) Value {
		return in.ctx.Bool(in.errorsIs(args[0].(*IfaceV), args[1].(*IfaceV), 0))
	})
	reg("errors.As", func(in *Interp, fn *ssa.Function, args []Value) Value {
		return in.ctx.Bool(in.errorsAs(args[0].(*IfaceV), args[1].(*IfaceV), 0))
	})
}

// ---------- helpers ----------

func (in *Interp) bitsLen(x *Term) *Term {
	c := in.ctx
	if x.IsConst() {
		return c.Const(64, uint64(bits.Len64(x.val)))
	}
	// ite ladder from the top bit down
	r := c.Const(64, 0)
	for i := uint8(0); i < x.w; i++ {
		bit := c.Eq(c.Extract(x, i, i), c.Const(1, 1))
		r = c.Ite(bit, c.Const(64, uint64(i)+1), r)
	}
	return r
}

func (in *Interp) bitsTz(x *Term) *Term {
	c := in.ctx
	if x.IsConst() {
		if x.val == 0 {
			return c.Const(64, uint64(x.w))
		}
		return c.Const(64, uint64(bits.TrailingZeros64(x.val)))
	}
	r := c.Const(64, uint64(x.w))
	for i := int(x.w) - 1; i >= 0; i-- {
		bit := c.Eq(c.Extract(x, uint8(i), uint8(i)), c.Const(1, 1))
		r = c.Ite(bit, c.Const(64, uint64(i)), r)
	}
	return r
}

func (in *Interp) indexByte(p Ptr, n int, b *Term) Value {
	c := in.ctx
	bs := in.bytesOf(p, n)
	for i := 0; i < n; i++ {
		if in.branch(c.Eq(bs[i], b)) {
			return c.Const(64, uint64(i))
		}
	}
	return c.Const(64, ^uint64(0))
}

func (in *Interp) countByte(p Ptr, n int, b *Term) Value {
	c := in.ctx
	bs := in.bytesOf(p, n)
	r := c.Const(64, 0)
	for i := 0; i < n; i++ {
		r = c.Add(r, c.Ite(c.Eq(bs[i], b), c.Const(64, 1), c.Const(64, 0)))
	}
	return r
}

// crc32Update is the bitwise reflected CRC-32 (the mathematical definition);
// the polynomial is read from entry 128 of the table (== poly for a reflected
// table) or IEEE when tab is nil.
func (in *Interp) crc32Update(crc *Term, tab Ptr, p Ptr, n int) Value {
	c := in.ctx
	poly := uint64(0xedb88320)
	if tab.ID != 0 {
		t := in.loadBits(Ptr{tab.ID, tab.Off + 128*4}, 4)
		if !t.IsConst() {
			in.fail("symbolic crc table")
		}
		poly = t.val
	}
	polyT := c.Const(32, poly)
	zero := c.Const(32, 0)
	one := c.Const(32, 1)
	bs := in.bytesOf(p, n)
	if in.abstractCRC {
		if r := in.crcAbstract(crc, uint32(poly), bs); r != nil {
			return r
		}
	}
	crc = c.BvNot(crc)
	for _, b := range bs {
		crc = c.BvXor(crc, c.Zext(b, 32))
		for k := 0; k < 8; k++ {
			lsb := c.Eq(c.Extract(crc, 0, 0), c.Const(1, 1))
			crc = c.BvXor(c.Lshr(crc, one), c.Ite(lsb, polyT, zero))
		}
	}
	return c.BvNot(crc)
}

// ---------- sync.Pool ----------

func (in *Interp) poolGet(fn *ssa.Function, p Ptr) Value {
	if items := in.pools[p]; len(items) > 0 {
		v := items[len(items)-1]
		in.pools[p] = items[:len(items)-1]
		in.markReleased(v, false)
		return v
	}
	// call New if set
	pt := fn.Signature.Recv().Type().(*types.Pointer).Elem()
	st := pt.Underlying().(*types.Struct)
	offs := fieldOffsets(st)
	for i := 0; i < st.NumFields(); i++ {
		if st.Field(i).Name() == "New" {
			f := in.load(Ptr{p.ID, p.Off + int(offs[i])}, st.Field(i).Type()).(*FuncV)
			if f != nil && (f.Fn != nil || f.B != nil) {
				return in.callValue(f, nil, nil)
			}
		}
	}
	return &IfaceV{}
}

func (in *Interp) poolPut(p Ptr, v Value) {
	iv, ok := v.(*IfaceV)
	if !ok || iv == nil || iv.T == nil {
		return
	}
	in.markReleased(v, true)
	in.pools[p] = append(in.pools[p], v)
}

// markReleased flags the object directly pointed to by a pooled value.
func (in *Interp) markReleased(v Value, rel bool) {
	if !in.trackReleased {
		return
	}
	iv, ok := v.(*IfaceV)
	if !ok || iv == nil {
		return
	}
	if p, ok := iv.V.(Ptr); ok && p.ID != 0 {
		in.objMut(p.ID).released = rel
	}
}

// ---------- fmt / errors ----------

func (in *Interp) fmtSprintf(format StrV, a SliceV) Value {
	f, ok := in.goString(format)
	if !ok {
		return in.constString("<fmt>")
	}
	// render concrete ints and strings for the common verbs; anything else keeps the verb
	var sb strings.Builder
	ai := 0
	for i := 0; i < len(f); i++ {
		if f[i] != '%' || i+1 >= len(f) {
			sb.WriteByte(f[i])
			continue
		}
		j := i + 1
		for j < len(f) && strings.IndexByte("+-# 0123456789.", f[j]) >= 0 {
			j++
		}
		if j >= len(f) {
			sb.WriteString(f[i:])
			break
		}
		verb := f[j]
		if verb == '%' {
			sb.WriteByte('%')
			i = j
			continue
		}
		if ai < a.Len {
			arg := in.load(Ptr{a.P.ID, a.P.Off + 16*ai}, types.NewInterfaceType(nil, nil)).(*IfaceV)
			ai++
			sb.WriteString(in.fmtArg(arg, verb))
		} else {
			sb.WriteString("%!" + string(verb) + "(MISSING)")
		}
		i = j
	}
	return in.constString(sb.String())
}

func (in *Interp) fmtArg(arg *IfaceV, verb byte) string {
	if arg == nil || arg.T == nil {
		return "<nil>"
	}
	switch v := arg.V.(type) {
	case *Term:
		if v.IsConst() {
			k, _ := scalarOf(arg.T)
			switch {
			case k.isBool:
				return fmt.Sprint(v.val == 1)
			case k.float:
				return fmt.Sprint(fval(v))
			case k.signed:
				if verb == 'x' {
					return fmt.Sprintf("%x", signExt(v.val, v.w))
				}
				return fmt.Sprint(signExt(v.val, v.w))
			default:
				if verb == 'x' {
					return fmt.Sprintf("%x", v.val)
				}
				return fmt.Sprint(v.val)
			}
		}
		return "<sym>"
	case StrV:
		if s, ok := in.goString(v); ok {
			if verb == 'q' {
				return fmt.Sprintf("%q", s)
			}
			return s
		}
		return "<symstr>"
	}
	return "<" + arg.T.String() + ">"
}

func (in *Interp) fmtErrorf(args []Value) Value {
	format := args[0].(StrV)
	a := args[1].(SliceV)
	f, _ := in.goString(format)
	msg := in.fmtSprintf(format, a).(StrV)
	errT := in.errorType()
	var wrapped *IfaceV
	if strings.Contains(f, "%w") {
		for i := 0; i < a.Len; i++ {
			arg := in.load(Ptr{a.P.ID, a.P.Off + 16*i}, types.NewInterfaceType(nil, nil)).(*IfaceV)
			if arg != nil && arg.T != nil && types.Implements(arg.T, errT) {
				wrapped = arg
				break
			}
		}
	}
	fmtPkg := in.prog.ImportedPackage("fmt")
	if wrapped != nil && fmtPkg != nil {
		wt := fmtPkg.Type("wrapError")
		if wt != nil {
			st := wt.Type().Underlying().(*types.Struct)
			p := in.newObject(sizeof(wt.Type()), wt.Type(), "fmt.wrapError")
			in.store(p, st, &StructV{[]Value{msg, wrapped}})
			return &IfaceV{T: types.NewPointer(wt.Type()), V: p}
		}
	}
	errorsPkg := in.prog.ImportedPackage("errors")
	if errorsPkg == nil {
		in.fail("errors package not loaded")
	}
	et := errorsPkg.Type("errorString").Type()
	p := in.newObject(sizeof(et), et, "errors.errorString")
	in.store(p, et.Underlying(), &StructV{[]Value{msg}})
	return &IfaceV{T: types.NewPointer(et), V: p}
}

func (in *Interp) errorType() *types.Interface {
	return types.Universe.Lookup("error").Type().Underlying().(*types.Interface)
}

func (in *Interp) findMethod(t types.Type, name string) *ssa.Function {
	ms := in.prog.MethodSets.MethodSet(t)
	for i := 0; i < ms.Len(); i++ {
		if ms.At(i).Obj().Name() == name {
			return in.prog.MethodValue(ms.At(i))
		}
	}
	return nil
}

func (in *Interp) errorsIs(err, target *IfaceV, depth int) bool {
	if depth > 50 {
		in.fail("errors.Is chain too deep")
	}
	if err == nil || err.T == nil {
		return target == nil || target.T == nil
	}
	if target == nil || target.T == nil {
		return false
	}
	if types.Identical(err.T, target.T) && types.Comparable(err.T) {
		eq := in.equal(err.T, err.V, target.V)
		if in.branch(eq) {
			return true
		}
	}
	if m := in.findMethod(err.T, "Is"); m != nil && m.Signature.Params().Len() == 1 {
		r := in.callFunction(m, []Value{err.V, target}, nil)
		if t, ok := r.(*Term); ok && in.branch(t) {
			return true
		}
	}
	if m := in.findMethod(err.T, "Unwrap"); m != nil {
		r := in.callFunction(m, []Value{err.V}, nil)
		switch x := r.(type) {
		case *IfaceV:
			if x == nil || x.T == nil {
				return false
			}
			return in.errorsIs(x, target, depth+1)
		case SliceV:
			for i := 0; i < x.Len; i++ {
				e := in.load(Ptr{x.P.ID, x.P.Off + 16*i}, in.errorType()).(*IfaceV)
				if in.errorsIs(e, target, depth+1) {
					return true
				}
			}
		}
	}
	return false
}

func (in *Interp) errorsAs(err, target *IfaceV, depth int) bool {
	if target == nil || target.T == nil {
		in.gopanic("errors: target cannot be nil")
	}
	pt, ok := target.T.Underlying().(*types.Pointer)
	if !ok {
		in.gopanic("errors: target must be a non-nil pointer")
	}
	tt := pt.Elem()
	tp := target.V.(Ptr)
	for depth < 50 {
		if err == nil || err.T == nil {
			return false
		}
		if types.IsInterface(tt) {
			if types.Implements(err.T, tt.Underlying().(*types.Interface)) {
				in.store(tp, tt, err)
				return true
			}
		} else if types.Identical(err.T, tt) {
			in.store(tp, tt, err.V)
			return true
		}
		if m := in.findMethod(err.T, "As"); m != nil {
			r := in.callFunction(m, []Value{err.V, target}, nil)
			if t, ok := r.(*Term); ok && in.branch(t) {
				return true
			}
		}
		m := in.findMethod(err.T, "Unwrap")
		if m == nil {
			return false
		}
		r := in.callFunction(m, []Value{err.V}, nil)
		x, ok := r.(*IfaceV)
		if !ok {
			return false
		}
		err = x
		depth++
	}
	return false
}

// crcAbstract models CRC-32 as an unknown function of the whole byte stream:
// the checksum of a stream with symbolic bytes is one fresh 32-bit value per
// distinct stream (however it is split over Update calls), concrete streams are
// computed. Nothing but "equal streams have equal checksums" is assumed.
type crcStream struct{ terms []*Term }

func (in *Interp) crcAbstract(crc0 *Term, poly uint32, bs []*Term) *Term {
	c := in.ctx
	if in.crcStreams == nil {
		in.crcStreams = map[*Term]*crcStream{}
		in.crcMemo = map[string]*Term{}
	}
	var stream []*Term
	if base, ok := in.crcStreams[crc0]; ok && !(crc0.IsConst() && crc0.val == 0) {
		stream = append(stream, base.terms...)
	} else if crc0.IsConst() {
		if crc0.val != 0 {
			stream = append(stream, crc0) // a 32-bit start value, told apart from bytes by its width
		}
	} else {
		return nil // symbolic start value of unknown origin: fall back to the bitwise definition
	}
	stream = append(stream, bs...)
	concrete := true
	for _, t := range stream {
		if !t.IsConst() {
			concrete = false
			break
		}
	}
	if concrete {
		start := uint32(0)
		data := stream
		if len(data) > 0 && data[0].w == 32 {
			start = uint32(data[0].val)
			data = data[1:]
		}
		raw := make([]byte, len(data))
		for i, t := range data {
			raw[i] = byte(t.val)
		}
		r := c.Const(32, uint64(crc32.Update(start, crc32.MakeTable(poly), raw)))
		if _, ok := in.crcStreams[r]; !ok {
			in.crcStreams[r] = &crcStream{stream}
		}
		return r
	}
	var sb strings.Builder
	fmt.Fprintf(&sb, "%x", poly)
	for _, t := range stream {
		fmt.Fprintf(&sb, "|%p", t)
	}
	key := sb.String()
	if t, ok := in.crcMemo[key]; ok {
		return t
	}
	t := c.Var(fmt.Sprintf("crc32_%d", len(in.crcMemo)), 32)
	in.crcMemo[key] = t
	in.crcStreams[t] = &crcStream{stream}
	if in.crcFixedWidth {
		in.assumeTerm(c.Not(c.Eq(c.Extract(t, 31, 31), c.Extract(t, 30, 30))))
	}
	return t
}

package main

import "golang.org/x/tools/go/ssa"

type ValidationRes struct {
	Samples    []string `json:"samples"`
	Runs       int      `json:"runs"`
	Agreed     int      `json:"agreed"`
	Mismatches int      `json:"mismatches"`
	Error      string   `json:"error,omitempty"`
}

func validate(ld *loaded, spec *Spec, hs HarnessSpec, base *Base, fn *ssa.Function, cfg *RunConfig, replace map[string]*ssa.Function) *ValidationRes {
	return &ValidationRes{}
}

package main

// Native side: the same harness source compiled by the real Go compiler
// against the real /repo tree (overlay), with intrinsics that read their values
// from a JSON list. Used for (a) replaying solver counterexamples and (b)
// translator validation: random concrete assignments run natively and in the
// engine must produce identical observation logs.

import (
	"bufio"
	"bytes"
	"encoding/json"
	"fmt"
	"os"
	"os/exec"
	"path/filepath"
	"regexp"
	"sort"
	"strings"
	"sync"
	"time"

	"golang.org/x/tools/go/ssa"
)

type ValidationRes struct {
	Samples    []string `json:"samples"`
	Runs       int      `json:"runs"`
	Agreed     int      `json:"agreed"`
	AssumedOut int      `json:"assumed_away"`
	Mismatches int      `json:"mismatches"`
	Error      string   `json:"error,omitempty"`
}

type nativeRun struct {
	I       int         `json:"i"`
	Nondets []NondetRec `json:"nondets"`
	Log     []string    `json:"log"`
	Failed  bool        `json:"failed"`
	Panic   string      `json:"panic"`
	Assumed bool        `json:"assumed"`
}

var nativeBins sync.Map // pkg path -> binary path or error string

var harnessFuncRe = regexp.MustCompile(`(?m)^func (Verif[HS]_\w+)\(\)`)

// buildNative compiles a driver binary for one harness package.
func buildNative(ld *loaded, spec *Spec, pkgPath string) (string, error) {
	if v, ok := nativeBins.Load(pkgPath); ok {
		if s, ok := v.(string); ok {
			return s, nil
		}
		return "", v.(error)
	}
	rel := strings.TrimPrefix(strings.TrimPrefix(pkgPath, modPath), "/")
	work := spec.WorkDir
	if work == "" {
		work = "/verif/work"
	}
	os.MkdirAll(work, 0755)
	tag := strings.ReplaceAll(rel, "/", "_")
	if tag == "" {
		tag = "root"
	}
	dir := filepath.Join(work, "native_"+tag)
	os.RemoveAll(dir)
	os.MkdirAll(dir, 0755)
	ov := map[string]string{}
	var names []string
	pkgName := ""
	for dst, src := range ld.overlay {
		if filepath.Dir(dst) != filepath.Join(spec.Repo, rel) && !(rel == "" && filepath.Dir(dst) == spec.Repo) {
			// mutants and other packages' harness files are still part of the overlay
			if !strings.HasPrefix(filepath.Base(dst), "zz_verif_") {
				f := filepath.Join(dir, "mut_"+strings.ReplaceAll(strings.TrimPrefix(dst, spec.Repo+"/"), "/", "_"))
				os.WriteFile(f, src, 0644)
				ov[dst] = f
			}
			continue
		}
		if filepath.Base(dst) == "zz_verif_intrinsics.go" {
			continue
		}
		if !strings.HasPrefix(filepath.Base(dst), "zz_verif_") {
			f := filepath.Join(dir, "mut_"+filepath.Base(dst))
			os.WriteFile(f, src, 0644)
			ov[dst] = f
			continue
		}
		f := filepath.Join(dir, filepath.Base(dst))
		os.WriteFile(f, src, 0644)
		ov[dst] = f
		if m := regexp.MustCompile(`(?m)^package\s+(\w+)`).FindSubmatch(src); m != nil {
			pkgName = string(m[1])
		}
		// Files with environment replacements are compiled natively too: their
		// VerifH_ harnesses are never run natively (the stubs cannot be linked in),
		// but they may define VerifS_ scenario functions that re-enact a
		// counterexample through the real code.
		for _, m := range harnessFuncRe.FindAllSubmatch(src, -1) {
			names = append(names, string(m[1]))
		}
	}
	sort.Strings(names)
	var reg strings.Builder
	for _, n := range names {
		fmt.Fprintf(&reg, "\t%q: %s,\n", n, n)
	}
	nsrc := strings.Replace(nativeIntrinsics, "package PKG", "package "+pkgName, 1)
	nsrc = strings.Replace(nsrc, "//HARNESSES//", reg.String(), 1)
	nf := filepath.Join(dir, "zz_verif_native.go")
	os.WriteFile(nf, []byte(nsrc), 0644)
	ov[filepath.Join(spec.Repo, rel, "zz_verif_native.go")] = nf
	mainDir := filepath.Join(spec.Repo, "internal", "zzverifmain_"+tag)
	mf := filepath.Join(dir, "main.go")
	os.WriteFile(mf, []byte(fmt.Sprintf("package main\n\nimport p %q\n\nfunc main() { p.VerifNativeMain() }\n", pkgPath)), 0644)
	ov[filepath.Join(mainDir, "main.go")] = mf
	ovj, _ := json.Marshal(map[string]interface{}{"Replace": ov})
	ovf := filepath.Join(dir, "overlay.json")
	os.WriteFile(ovf, ovj, 0644)
	bin := filepath.Join(dir, "driver")
	cmd := exec.Command("go", "build", "-tags=purego,verif", "-overlay", ovf, "-o", bin, "./"+filepath.Join("internal", "zzverifmain_"+tag))
	cmd.Dir = spec.Repo
	cmd.Env = append(os.Environ(), "GOFLAGS=-mod=mod", "GOPROXY=off")
	out, err := cmd.CombinedOutput()
	if err != nil {
		e := fmt.Errorf("native build failed: %v\n%s", err, out)
		nativeBins.Store(pkgPath, e)
		return "", e
	}
	nativeBins.Store(pkgPath, bin)
	return bin, nil
}

func harnessHasEnvReplace(ld *loaded, hs HarnessSpec) bool {
	for dst, src := range ld.overlay {
		if bytes.Contains(src, []byte("func "+hs.Func+"()")) {
			_ = dst
			return bytes.Contains(src, []byte("//verif:replace"))
		}
	}
	return false
}

func harnessDefined(ld *loaded, fn string) bool {
	for _, src := range ld.overlay {
		if bytes.Contains(src, []byte("func "+fn+"()")) {
			return true
		}
	}
	return false
}

func runNative(bin string, env []string, timeout time.Duration) ([]nativeRun, string, error) {
	cmd := exec.Command("/bin/sh", "-c", "ulimit -v 6000000; exec "+bin)
	cmd.Env = append(os.Environ(), env...)
	var out, errb bytes.Buffer
	cmd.Stdout = &out
	cmd.Stderr = &errb
	if err := cmd.Start(); err != nil {
		return nil, "", err
	}
	done := make(chan error, 1)
	go func() { done <- cmd.Wait() }()
	var werr error
	timedOut := false
	select {
	case werr = <-done:
	case <-time.After(timeout):
		cmd.Process.Kill()
		<-done
		timedOut = true
	}
	var runs []nativeRun
	sc := bufio.NewScanner(&out)
	sc.Buffer(make([]byte, 1<<20), 1<<26)
	for sc.Scan() {
		line := sc.Text()
		if strings.HasPrefix(line, "VERIF-RUN ") {
			var r nativeRun
			if json.Unmarshal([]byte(line[10:]), &r) == nil {
				runs = append(runs, r)
			}
		}
	}
	if timedOut {
		return runs, errb.String(), fmt.Errorf("native run timed out after %s", timeout)
	}
	if werr != nil && len(runs) == 0 {
		es := errb.String()
		if len(es) > 400 {
			es = es[:400] + "…"
		}
		return runs, es, fmt.Errorf("native run failed: %v: %s", werr, es)
	}
	return runs, errb.String(), nil
}

func validate(ld *loaded, spec *Spec, hs HarnessSpec, base *Base, fn *ssa.Function, cfg *RunConfig, replace map[string]*ssa.Function) *ValidationRes {
	vr := &ValidationRes{}
	bin, err := buildNative(ld, spec, hs.Pkg)
	if err != nil {
		vr.Error = err.Error()
		return vr
	}
	runs, _, err := runNative(bin, []string{
		"VERIF_MODE=random", "VERIF_HARNESS=" + hs.Func,
		fmt.Sprintf("VERIF_N=%d", hs.Validate), fmt.Sprintf("VERIF_SEED=%d", spec.Seed), fmt.Sprintf("VERIF_TIER=%d", spec.Tier),
	}, 120*time.Second)
	if err != nil {
		vr.Error = err.Error()
		return vr
	}
	for _, r := range runs {
		vr.Runs++
		elog, eerr := runConcrete(ld.prog, base, fn, cfg, replace, r.Nondets)
		if eerr != "" {
			vr.Mismatches++
			if len(vr.Samples) < 3 {
				vr.Samples = append(vr.Samples, fmt.Sprintf("engine error on native sample %d: %s", r.I, eerr))
			}
			continue
		}
		if r.Assumed {
			vr.AssumedOut++
		}
		if strings.Join(elog, "\n") != strings.Join(r.Log, "\n") {
			vr.Mismatches++
			if len(vr.Samples) < 3 {
				nd, _ := json.Marshal(r.Nondets)
				vr.Samples = append(vr.Samples, fmt.Sprintf("MISMATCH inputs=%s native=%v engine=%v", nd, r.Log, elog))
			}
			continue
		}
		vr.Agreed++
		if len(vr.Samples) < 2 && !r.Assumed {
			nd, _ := json.Marshal(r.Nondets)
			s := fmt.Sprintf("inputs=%s log=%v", nd, r.Log)
			if len(s) > 600 {
				s = s[:600] + "…"
			}
			vr.Samples = append(vr.Samples, s)
		}
	}
	if vr.Runs == 0 {
		vr.Error = "native driver produced no runs"
	}
	return vr
}

// replayNative runs one counterexample natively; returns whether the failure reproduced.
func replayNative(ld *loaded, spec *Spec, hs HarnessSpec, v *Violation, path string) (bool, string) {
	bin, err := buildNative(ld, spec, hs.Pkg)
	if err != nil {
		return false, err.Error()
	}
	fn := hs.Func
	scenario := false
	if harnessHasEnvReplace(ld, hs) {
		fn = "VerifS_" + strings.TrimPrefix(hs.Func, "VerifH_")
		scenario = true
		if !harnessDefined(ld, fn) {
			return false, "harness uses environment stubs and defines no native scenario (" + fn + ")"
		}
	}
	js, _ := json.MarshalIndent(map[string]interface{}{"pkg": hs.Pkg, "harness": hs.Func, "native_func": fn, "kind": v.Kind, "msg": v.Msg, "where": v.Where, "nondets": v.Nondets, "tier": spec.Tier}, "", " ")
	os.MkdirAll(filepath.Dir(path), 0755)
	os.WriteFile(path, js, 0644)
	mode := "replay"
	if scenario {
		mode = "scenario"
	}
	runs, stderr, err := runNative(bin, []string{"VERIF_MODE=" + mode, "VERIF_HARNESS=" + fn, "VERIF_INPUT=" + path, fmt.Sprintf("VERIF_TIER=%d", spec.Tier)}, 60*time.Second)
	if err != nil {
		if scenario {
			// the real code did not survive the scenario: non-termination or a fatal runtime error
			tail := stderr
			if len(tail) > 300 {
				tail = tail[:300]
			}
			return true, "native scenario " + fn + " did not complete: " + err.Error() + " " + tail
		}
		return false, err.Error() + stderr
	}
	if len(runs) == 0 {
		return false, "no native result"
	}
	r := runs[0]
	if scenario {
		if r.Failed {
			return true, fmt.Sprintf("native scenario %s failed: %v", fn, r.Log)
		}
		if r.Panic != "" {
			return true, "native scenario " + fn + " panicked: " + r.Panic
		}
		return false, fmt.Sprintf("native scenario %s passed (log %v)", fn, r.Log)
	}
	if v.Kind != "panic" {
		for _, l := range r.Log {
			if l == "assert:"+v.Msg+"=false" {
				return true, "native assertion failed: " + v.Msg
			}
		}
	}
	if strings.HasPrefix(r.Panic, "verif:") {
		return false, "native replay diverged from the engine path: " + r.Panic
	}
	switch v.Kind {
	case "panic":
		return r.Panic != "", "native panic: " + r.Panic
	default:
		for _, l := range r.Log {
			if l == "assert:"+v.Msg+"=false" {
				return true, "native assertion failed: " + v.Msg
			}
		}
		if r.Panic != "" {
			return true, "native panic instead of assertion failure: " + r.Panic
		}
		return false, fmt.Sprintf("native run passed (log %v)", r.Log)
	}
}

const nativeIntrinsics = `//go:build verif

package PKG

import (
	"encoding/json"
	"fmt"
	"math"
	"math/rand"
	"os"
	"strconv"
	"time"
	"unsafe"
)

type vRec struct {
	Tag  string ` + "`json:\"tag\"`" + `
	Kind string ` + "`json:\"kind\"`" + `
	W    int    ` + "`json:\"w\"`" + `
	Val  uint64 ` + "`json:\"val\"`" + `
}

type vAssumeFail struct{}

var vSt struct {
	random bool
	in     []vRec
	at     int
	rng    *rand.Rand
	out    []vRec
	log    []string
	tier     int
	failed   bool
	scenario bool
}

// vReplayVal returns the k-th counterexample value recorded under tag (scenario
// functions re-enact a counterexample through the public API and pick the
// values they need by name).
func vReplayVal(tag string, k int) (uint64, bool) {
	for _, r := range vSt.in {
		if r.Tag == tag {
			if k == 0 {
				return r.Val, true
			}
			k--
		}
	}
	return 0, false
}

// vWithTimeout runs f and reports whether it returned within the limit.
func vWithTimeout(f func(), seconds int) bool {
	done := make(chan struct{})
	go func() { defer close(done); f() }()
	select {
	case <-done:
		return true
	case <-time.After(time.Duration(seconds) * time.Second):
		return false
	}
}

var vHarnesses = map[string]func(){
//HARNESSES//
}

func vDraw(tag, kind string, w int) uint64 {
	if vSt.random {
		var v uint64
		switch vSt.rng.Intn(8) {
		case 0:
			v = 0
		case 1:
			v = 1
		case 2:
			v = ^uint64(0)
		case 3:
			v = uint64(1) << uint(w-1)
		case 4:
			v = uint64(1)<<uint(w-1) - 1
		case 5:
			v = uint64(vSt.rng.Intn(4))
		default:
			v = vSt.rng.Uint64()
		}
		if w < 64 {
			v &= uint64(1)<<uint(w) - 1
		}
		if kind == "bool" {
			v &= 1
		}
		vSt.out = append(vSt.out, vRec{tag, kind, w, v})
		return v
	}
	if vSt.at >= len(vSt.in) {
		if vSt.failed {
			panic(vAssumeFail{}) // the counterexample ends at the failed assertion
		}
		panic("verif: ran out of replay values at " + tag)
	}
	r := vSt.in[vSt.at]
	vSt.at++
	if r.Tag != tag || r.Kind != kind {
		panic(fmt.Sprintf("verif: replay mismatch: have %s/%s want %s/%s", r.Tag, r.Kind, tag, kind))
	}
	vSt.out = append(vSt.out, r)
	return r.Val
}

func vBool(tag string) bool   { return vDraw(tag, "bool", 8) == 1 }
func vU8(tag string) uint8    { return uint8(vDraw(tag, "U8", 8)) }
func vU16(tag string) uint16  { return uint16(vDraw(tag, "U16", 16)) }
func vU32(tag string) uint32  { return uint32(vDraw(tag, "U32", 32)) }
func vU64(tag string) uint64  { return vDraw(tag, "U64", 64) }
func vI8(tag string) int8     { return int8(vDraw(tag, "I8", 8)) }
func vI16(tag string) int16   { return int16(vDraw(tag, "I16", 16)) }
func vI32(tag string) int32   { return int32(vDraw(tag, "I32", 32)) }
func vI64(tag string) int64   { return int64(vDraw(tag, "I64", 64)) }
func vInt(tag string) int     { return int(vDraw(tag, "Int", 64)) }
func vF32(tag string) float32 { return math.Float32frombits(uint32(vDraw(tag, "F32", 32))) }
func vF64(tag string) float64 { return math.Float64frombits(vDraw(tag, "F64", 64)) }
func vBytes(tag string, n int) []byte {
	b := make([]byte, n)
	for i := range b {
		b[i] = uint8(vDraw(tag+"["+strconv.Itoa(i)+"]", "U8", 8))
	}
	return b
}
func vString(tag string, n int) string { return string(vBytes(tag, n)) }
func vHavoc(tag string, b []byte) {
	for i := range b {
		b[i] = uint8(vDraw(tag+"["+strconv.Itoa(i)+"]", "U8", 8))
	}
}
func vChoose(tag string, lo, hi int) int {
	if vSt.random {
		if hi < lo {
			panic(vAssumeFail{})
		}
		v := lo + vSt.rng.Intn(hi-lo+1)
		vSt.out = append(vSt.out, vRec{tag, "choose", 64, uint64(v)})
		return v
	}
	if vSt.at >= len(vSt.in) {
		if vSt.failed {
			panic(vAssumeFail{})
		}
		panic("verif: ran out of replay values at choose " + tag)
	}
	r := vSt.in[vSt.at]
	vSt.at++
	if r.Tag != tag || r.Kind != "choose" {
		panic(fmt.Sprintf("verif: replay mismatch: have %s/%s want %s/choose", r.Tag, r.Kind, tag))
	}
	vSt.out = append(vSt.out, r)
	return int(int64(r.Val))
}
func vTier() int { return vSt.tier }
func vAssume(c bool) {
	if !c {
		vSt.log = append(vSt.log, "assume=false")
		panic(vAssumeFail{})
	}
}
func vAssert(c bool, msg string) {
	vSt.log = append(vSt.log, fmt.Sprintf("assert:%s=%v", msg, c))
	if !c {
		vSt.failed = true
	}
}
func vCover(tag string)   { vSt.log = append(vSt.log, "cover:"+tag) }
func vUnwind(k int)       {}
func vAll(c ...bool) bool {
	for _, x := range c {
		if !x {
			return false
		}
	}
	return true
}
func vAny(c ...bool) bool {
	for _, x := range c {
		if x {
			return true
		}
	}
	return false
}
func vImplies(a, b bool) bool { return !a || b }
func vBytesEq(a, b []byte) bool { return string(a) == string(b) }
func vObserveInt(tag string, v int64)   { vSt.log = append(vSt.log, fmt.Sprintf("%s=%d", tag, v)) }
func vObserveBool(tag string, v bool)   { vSt.log = append(vSt.log, fmt.Sprintf("%s=%v", tag, v)) }
func vObserveBytes(tag string, v []byte) { vSt.log = append(vSt.log, fmt.Sprintf("%s=%x", tag, v)) }
func vTry(f func()) (panicked bool) {
	defer func() {
		if r := recover(); r != nil {
			if _, ok := r.(vAssumeFail); ok {
				panic(r)
			}
			panicked = true
		}
	}()
	f()
	return false
}
func vLearnBits(x uint64, w int) {}

// vAbstractCRC: from here on the engine treats the CRC-32 of symbolic bytes as an
// unknown function of those bytes (equal inputs give equal checksums, nothing
// else is assumed); natively the real CRC is computed.
func vAbstractCRC() {}

// vAbstractCRCFixedWidth: as vAbstractCRC, and the unknown checksum is assumed
// to be one whose signed 32-bit value takes the full five bytes as a Thrift
// zig-zag varint (bit 31 != bit 30), so that page headers have one length
// instead of five. Header layouts with a shorter CRC field are not explored.
func vAbstractCRCFixedWidth() {}
func vOverlap(a, b []byte) bool {
	if cap(a) == 0 || cap(b) == 0 {
		return false
	}
	pa := uintptr(unsafe.Pointer(unsafe.SliceData(a[:1])))
	pb := uintptr(unsafe.Pointer(unsafe.SliceData(b[:1])))
	return pa < pb+uintptr(cap(b)) && pb < pa+uintptr(cap(a))
}

type vResult struct {
	I       int      ` + "`json:\"i\"`" + `
	Nondets []vRec   ` + "`json:\"nondets\"`" + `
	Log     []string ` + "`json:\"log\"`" + `
	Failed  bool     ` + "`json:\"failed\"`" + `
	Panic   string   ` + "`json:\"panic\"`" + `
	Assumed bool     ` + "`json:\"assumed\"`" + `
}

func vRunOnce(fn func(), i int) (res vResult) {
	vSt.out, vSt.log, vSt.failed, vSt.at = nil, nil, false, 0
	res.I = i
	defer func() {
		if r := recover(); r != nil {
			if _, ok := r.(vAssumeFail); ok {
				res.Assumed = true
			} else {
				res.Panic = fmt.Sprint(r)
				if res.Panic == "" {
					res.Panic = "panic"
				}
				vSt.log = append(vSt.log, "panic")
			}
		}
		res.Nondets, res.Log, res.Failed = vSt.out, vSt.log, vSt.failed
		if res.Nondets == nil {
			res.Nondets = []vRec{}
		}
		if res.Log == nil {
			res.Log = []string{}
		}
	}()
	fn()
	return
}

// VerifNativeMain is the entry point of the native driver binary.
func VerifNativeMain() {
	name := os.Getenv("VERIF_HARNESS")
	fn := vHarnesses[name]
	if fn == nil {
		fmt.Fprintln(os.Stderr, "unknown harness", name)
		os.Exit(3)
	}
	vSt.tier, _ = strconv.Atoi(os.Getenv("VERIF_TIER"))
	emit := func(r vResult) {
		js, _ := json.Marshal(r)
		fmt.Printf("VERIF-RUN %s\n", js)
	}
	switch os.Getenv("VERIF_MODE") {
	case "replay", "scenario":
		b, err := os.ReadFile(os.Getenv("VERIF_INPUT"))
		if err != nil {
			fmt.Fprintln(os.Stderr, err)
			os.Exit(3)
		}
		var in struct {
			Nondets []vRec ` + "`json:\"nondets\"`" + `
		}
		if err := json.Unmarshal(b, &in); err != nil {
			fmt.Fprintln(os.Stderr, err)
			os.Exit(3)
		}
		vSt.in = in.Nondets
		vSt.scenario = os.Getenv("VERIF_MODE") == "scenario"
		r := vRunOnce(fn, 0)
		emit(r)
		if r.Failed || r.Panic != "" {
			os.Exit(1)
		}
	case "random":
		n, _ := strconv.Atoi(os.Getenv("VERIF_N"))
		seed, _ := strconv.ParseInt(os.Getenv("VERIF_SEED"), 10, 64)
		vSt.random = true
		for i := 0; i < n; i++ {
			vSt.rng = rand.New(rand.NewSource(seed*1000003 + int64(i)))
			emit(vRunOnce(fn, i))
		}
	}
}
`

package main

import (
	"fmt"
	"go/types"
	"os"

	"golang.org/x/tools/go/ssa"
)

// ---------- errors that end a path ----------

type engineErr struct{ msg string }    // unsupported / internal: inconclusive
type pathAbort struct{ reason string } // infeasible or assume(false): silent

type goPanic struct {
	val  Value
	kind string
	pos  string
}

func (in *Interp) fail(format string, a ...interface{}) {
	panic(engineErr{fmt.Sprintf(format, a...) + " @ " + in.where()})
}

func (in *Interp) gopanic(kind string) {
	panic(&goPanic{kind: kind, pos: in.where(), val: &IfaceV{T: types.Typ[types.String], V: in.constString(kind)}})
}

// ---------- objects ----------

func (in *Interp) newObject(size int, t types.Type, tag string) Ptr {
	if size < 0 || size > 1<<28 {
		in.fail("allocation of %d bytes", size)
	}
	in.nextObj++
	id := in.nextObj
	in.objs[id] = &Object{conc: make([]byte, size), typ: t, tag: tag}
	return Ptr{id, 0}
}

func (in *Interp) obj(id int) *Object {
	if id >= rtypeBase {
		return rtypeDummy
	}
	if o, ok := in.objs[id]; ok {
		return o
	}
	if in.base != nil {
		if o, ok := in.base.objs[id]; ok {
			return o
		}
	}
	in.fail("dangling object id %d", id)
	return nil
}

func (in *Interp) objMut(id int) *Object {
	if id >= rtypeBase {
		return rtypeDummy
	}
	if o, ok := in.objs[id]; ok {
		return o
	}
	if in.base != nil {
		if o, ok := in.base.objs[id]; ok {
			n := o.clone()
			in.objs[id] = n
			return n
		}
	}
	in.fail("dangling object id %d", id)
	return nil
}

func (in *Interp) stackString() string {
	s := ""
	for i := len(in.stack) - 1; i >= 0 && i > len(in.stack)-14; i-- {
		fr := in.stack[i]
		s += "\n    " + fr.fn.String()
		if fr.cur != nil && fr.cur.Pos().IsValid() {
			p := in.prog.Fset.Position(fr.cur.Pos())
			s += fmt.Sprintf(" (%s:%d)", shortFile(p.Filename), p.Line)
		}
	}
	return s
}

func (in *Interp) checkAccess(p Ptr, n int, write bool) *Object {
	if p.ID == 0 {
		in.gopanic("nil pointer dereference")
	}
	var o *Object
	if write {
		o = in.objMut(p.ID)
	} else {
		o = in.obj(p.ID)
	}
	if p.Off < 0 || p.Off+n > len(o.conc) {
		// zero-size accesses at the end are fine
		if n == 0 && p.Off >= 0 && p.Off <= len(o.conc) {
			return o
		}
		kind := fmt.Sprintf("unsafe out-of-bounds access off=%d n=%d size=%d", p.Off, n, len(o.conc))
		if os.Getenv("GOSYM_STACK") != "" {
			kind += in.stackString()
		}
		panic(&goPanic{kind: kind, pos: in.where()})
	}
	if write && o.ro {
		in.gopanic("write to read-only memory")
	}
	if o.released && in.trackReleased {
		in.releasedAccess++
		if in.releasedFatal {
			panic(&goPanic{kind: "access to released pooled buffer", pos: in.where()})
		}
	}
	return o
}

// loadBytes returns the little-endian value of n bytes as a term of width 8n.
func (in *Interp) loadBits(p Ptr, n int) *Term {
	o := in.checkAccess(p, n, false)
	if len(o.sym) == 0 {
		var v uint64
		for i := n - 1; i >= 0; i-- {
			v = v<<8 | uint64(o.conc[p.Off+i])
		}
		return in.ctx.Const(uint8(8*n), v)
	}
	if wc, ok := o.wide[p.Off]; ok && wc.n == n {
		return wc.t
	}
	var t *Term
	for i := n - 1; i >= 0; i-- {
		b := in.byteAt(o, p.Off+i)
		if t == nil {
			t = b
		} else {
			t = in.ctx.Concat(t, b)
		}
	}
	return t
}

func (in *Interp) byteAt(o *Object, off int) *Term {
	if s, ok := o.sym[off]; ok {
		return s
	}
	return in.ctx.Const(8, uint64(o.conc[off]))
}

// dropWide forgets forwarded words overlapping [off, off+n).
func dropWide(o *Object, off, n int) {
	if len(o.wide) == 0 {
		return
	}
	for k := off - 7; k < off+n; k++ {
		if wc, ok := o.wide[k]; ok && k+wc.n > off {
			delete(o.wide, k)
		}
	}
}

func (in *Interp) storeBits(p Ptr, n int, t *Term) {
	o := in.checkAccess(p, n, true)
	dropWide(o, p.Off, n)
	if t.IsConst() {
		v := t.val
		for i := 0; i < n; i++ {
			o.conc[p.Off+i] = byte(v)
			v >>= 8
			if o.sym != nil {
				delete(o.sym, p.Off+i)
			}
		}
		return
	}
	if int(t.w) != 8*n {
		in.fail("storeBits width %d into %d bytes", t.w, n)
	}
	for i := 0; i < n; i++ {
		b := in.ctx.Extract(t, uint8(8*i+7), uint8(8*i))
		in.setByteRaw(o, p.Off+i, b)
	}
	if n > 1 {
		if o.wide == nil {
			o.wide = map[int]wideCell{}
		}
		o.wide[p.Off] = wideCell{t, n}
	}
}

func (in *Interp) setByte(o *Object, off int, b *Term) {
	dropWide(o, off, 1)
	in.setByteRaw(o, off, b)
}

func (in *Interp) setByteRaw(o *Object, off int, b *Term) {
	if b.IsConst() {
		o.conc[off] = byte(b.val)
		if o.sym != nil {
			delete(o.sym, off)
		}
		return
	}
	if o.sym == nil {
		o.sym = map[int]*Term{}
	}
	o.sym[off] = b
}

func (in *Interp) loadWord(p Ptr) uint64 {
	t := in.loadBits(p, 8)
	if !t.IsConst() {
		v := in.concretize(t, "pointer-word")
		return uint64(v)
	}
	return t.val
}

func (in *Interp) storeWord(p Ptr, v uint64) {
	in.storeBits(p, 8, in.ctx.Const(64, v))
}

// ---------- boxes ----------

func (in *Interp) box(v Value) uint64 {
	in.boxes = append(in.boxes, v)
	return boxTag | uint64(len(in.boxes))
}

func (in *Interp) unbox(h uint64) Value {
	if h&boxTag == 0 {
		in.fail("not a box handle: %#x", h)
	}
	i := int(h &^ boxTag)
	if i <= 0 || i > len(in.boxes) {
		in.fail("bad box handle %#x", h)
	}
	return in.boxes[i-1]
}

// ---------- typed load / store ----------

func (in *Interp) load(p Ptr, t types.Type) Value {
	switch u := t.Underlying().(type) {
	case *types.Basic:
		if u.Info()&types.IsString != 0 {
			ptr := addrPtr(in.loadWord(p))
			l := in.loadInt(Ptr{p.ID, p.Off + 8})
			return StrV{ptr, l}
		}
		if u.Kind() == types.UnsafePointer {
			return addrPtr(in.loadWord(p))
		}
		k, ok := basicInfo(u)
		if !ok {
			in.fail("load of basic type %s", t)
		}
		if k.isBool {
			b := in.loadBits(p, 1)
			if b.IsConst() {
				return in.ctx.Bool(b.val != 0)
			}
			return in.ctx.Not(in.ctx.Eq(b, in.ctx.Const(8, 0)))
		}
		return in.loadBits(p, int(k.w/8))
	case *types.Pointer:
		return addrPtr(in.loadWord(p))
	case *types.Slice:
		ptr := addrPtr(in.loadWord(p))
		l := in.loadInt(Ptr{p.ID, p.Off + 8})
		c := in.loadInt(Ptr{p.ID, p.Off + 16})
		return SliceV{ptr, l, c}
	case *types.Struct:
		offs := fieldOffsets(u)
		f := make([]Value, u.NumFields())
		for i := range f {
			f[i] = in.load(Ptr{p.ID, p.Off + int(offs[i])}, u.Field(i).Type())
		}
		return &StructV{f}
	case *types.Array:
		n := int(u.Len())
		es := sizeof(u.Elem())
		e := make([]Value, n)
		for i := range e {
			e[i] = in.load(Ptr{p.ID, p.Off + i*es}, u.Elem())
		}
		return &ArrayV{e}
	case *types.Interface:
		h := in.loadWord(p)
		if h == 0 {
			return &IfaceV{}
		}
		return in.unbox(h)
	case *types.Signature:
		h := in.loadWord(p)
		if h == 0 {
			return &FuncV{}
		}
		return in.unbox(h)
	case *types.Map:
		h := in.loadWord(p)
		if h == 0 {
			return MapV{}
		}
		return MapV{int(h &^ mapTag)}
	case *types.Chan:
		h := in.loadWord(p)
		if h == 0 {
			return ChanV{}
		}
		return ChanV{int(h &^ chanTag)}
	}
	in.fail("load of type %s", t)
	return nil
}

func (in *Interp) loadInt(p Ptr) int {
	t := in.loadBits(p, 8)
	if !t.IsConst() {
		return int(in.concretize(t, "length-word"))
	}
	return int(int64(t.val))
}

func (in *Interp) store(p Ptr, t types.Type, v Value) {
	if po, ok := v.(Poison); ok {
		o := in.objMut(p.ID)
		o.tag = "poison:" + po.Why
		in.poisoned[p.ID] = po.Why
		return
	}
	switch u := t.Underlying().(type) {
	case *types.Basic:
		if u.Info()&types.IsString != 0 {
			s := v.(StrV)
			in.storeWord(p, ptrAddr(s.P))
			in.storeWord(Ptr{p.ID, p.Off + 8}, uint64(s.Len))
			return
		}
		if u.Kind() == types.UnsafePointer {
			in.storeWord(p, ptrAddr(v.(Ptr)))
			return
		}
		k, ok := basicInfo(u)
		if !ok {
			in.fail("store of basic type %s", t)
		}
		x := v.(*Term)
		if k.isBool {
			if x.IsConst() {
				in.storeBits(p, 1, in.ctx.Const(8, x.val))
			} else {
				in.storeBits(p, 1, in.ctx.Ite(x, in.ctx.Const(8, 1), in.ctx.Const(8, 0)))
			}
			return
		}
		in.storeBits(p, int(k.w/8), x)
	case *types.Pointer:
		in.storeWord(p, ptrAddr(v.(Ptr)))
	case *types.Slice:
		s := v.(SliceV)
		in.storeWord(p, ptrAddr(s.P))
		in.storeWord(Ptr{p.ID, p.Off + 8}, uint64(s.Len))
		in.storeWord(Ptr{p.ID, p.Off + 16}, uint64(s.Cap))
	case *types.Struct:
		offs := fieldOffsets(u)
		s := v.(*StructV)
		for i := range s.F {
			in.store(Ptr{p.ID, p.Off + int(offs[i])}, u.Field(i).Type(), s.F[i])
		}
	case *types.Array:
		es := sizeof(u.Elem())
		a := v.(*ArrayV)
		for i := range a.E {
			in.store(Ptr{p.ID, p.Off + i*es}, u.Elem(), a.E[i])
		}
	case *types.Interface:
		iv := v.(*IfaceV)
		if iv == nil || iv.T == nil {
			in.storeWord(p, 0)
		} else {
			in.storeWord(p, in.box(iv))
		}
		// the data word is only meaningful for pointer-shaped dynamic values
		// (code that peeks at it with unsafe reads the pointer identity)
		if dp, ok := iv.V.(Ptr); ok && iv != nil && iv.T != nil {
			in.storeWord(Ptr{p.ID, p.Off + 8}, ptrAddr(dp))
		} else {
			in.storeWord(Ptr{p.ID, p.Off + 8}, 0)
		}
	case *types.Signature:
		f := v.(*FuncV)
		if f == nil || (f.Fn == nil && f.B == nil && f.N == nil) {
			in.storeWord(p, 0)
		} else {
			in.storeWord(p, in.box(f))
		}
	case *types.Map:
		m := v.(MapV)
		if m.H == 0 {
			in.storeWord(p, 0)
		} else {
			in.storeWord(p, mapTag|uint64(m.H))
		}
	case *types.Chan:
		m := v.(ChanV)
		if m.H == 0 {
			in.storeWord(p, 0)
		} else {
			in.storeWord(p, chanTag|uint64(m.H))
		}
	default:
		in.fail("store of type %s", t)
	}
}

func (in *Interp) zero(t types.Type) Value {
	switch u := t.Underlying().(type) {
	case *types.Basic:
		if u.Info()&types.IsString != 0 {
			return StrV{}
		}
		if u.Kind() == types.UnsafePointer {
			return Ptr{}
		}
		if u.Kind() == types.UntypedNil {
			return nil
		}
		k, ok := basicInfo(u)
		if !ok {
			in.fail("zero of basic type %s", t)
		}
		return in.ctx.Const(k.w, 0)
	case *types.Pointer:
		return Ptr{}
	case *types.Slice:
		return SliceV{}
	case *types.Struct:
		f := make([]Value, u.NumFields())
		for i := range f {
			f[i] = in.zero(u.Field(i).Type())
		}
		return &StructV{f}
	case *types.Array:
		e := make([]Value, int(u.Len()))
		for i := range e {
			e[i] = in.zero(u.Elem())
		}
		return &ArrayV{e}
	case *types.Interface:
		return &IfaceV{}
	case *types.Signature:
		return &FuncV{}
	case *types.Map:
		return MapV{}
	case *types.Chan:
		return ChanV{}
	case *types.Tuple:
		tv := make(TupleV, u.Len())
		for i := range tv {
			tv[i] = in.zero(u.At(i).Type())
		}
		return tv
	}
	in.fail("zero of type %s", t)
	return nil
}

// ---------- strings and byte helpers ----------

func (in *Interp) constString(s string) StrV {
	if len(s) == 0 {
		return StrV{}
	}
	if in.base != nil {
		if id, ok := in.base.strs[s]; ok {
			return StrV{Ptr{id, 0}, len(s)}
		}
	}
	if id, ok := in.strs[s]; ok {
		return StrV{Ptr{id, 0}, len(s)}
	}
	p := in.newObject(len(s), types.Typ[types.Uint8], "strconst")
	o := in.objs[p.ID]
	copy(o.conc, s)
	o.ro = true
	in.strs[s] = p.ID
	return StrV{p, len(s)}
}

// goString returns the concrete Go string for a StrV; ok=false if symbolic.
func (in *Interp) goString(s StrV) (string, bool) {
	if s.Len == 0 {
		return "", true
	}
	o := in.checkAccess(s.P, s.Len, false)
	for i := 0; i < s.Len; i++ {
		if _, ok := o.sym[s.P.Off+i]; ok {
			return "", false
		}
	}
	return string(o.conc[s.P.Off : s.P.Off+s.Len]), true
}

func (in *Interp) mustString(s StrV) string {
	str, ok := in.goString(s)
	if !ok {
		in.fail("symbolic string where a concrete one is needed")
	}
	return str
}

// memmove copies n bytes (handles overlap).
func (in *Interp) memmove(dst, src Ptr, n int) {
	if n == 0 {
		return
	}
	so := in.checkAccess(src, n, false)
	// snapshot source bytes first (overlap-safe)
	cb := make([]byte, n)
	copy(cb, so.conc[src.Off:src.Off+n])
	var sb map[int]*Term
	if len(so.sym) > 0 {
		for i := 0; i < n; i++ {
			if t, ok := so.sym[src.Off+i]; ok {
				if sb == nil {
					sb = map[int]*Term{}
				}
				sb[i] = t
			}
		}
	}
	// forwarded words lying wholly inside the source range travel with the copy
	var wides map[int]wideCell
	if len(so.wide) > 0 {
		for k, wc := range so.wide {
			if k >= src.Off && k+wc.n <= src.Off+n {
				if wides == nil {
					wides = map[int]wideCell{}
				}
				wides[k-src.Off] = wc
			}
		}
	}
	do := in.checkAccess(dst, n, true)
	dropWide(do, dst.Off, n)
	for k, wc := range wides {
		if do.wide == nil {
			do.wide = map[int]wideCell{}
		}
		do.wide[dst.Off+k] = wc
	}
	copy(do.conc[dst.Off:dst.Off+n], cb)
	if len(do.sym) > 0 {
		for i := 0; i < n; i++ {
			delete(do.sym, dst.Off+i)
		}
	}
	for i, t := range sb {
		if do.sym == nil {
			do.sym = map[int]*Term{}
		}
		do.sym[dst.Off+i] = t
	}
}

func (in *Interp) memclr(p Ptr, n int) {
	if n == 0 {
		return
	}
	o := in.checkAccess(p, n, true)
	dropWide(o, p.Off, n)
	for i := 0; i < n; i++ {
		o.conc[p.Off+i] = 0
	}
	if len(o.sym) > 0 {
		for i := 0; i < n; i++ {
			delete(o.sym, p.Off+i)
		}
	}
}

// bytesOf returns the byte terms of a memory range.
func (in *Interp) bytesOf(p Ptr, n int) []*Term {
	if n == 0 {
		return nil
	}
	o := in.checkAccess(p, n, false)
	r := make([]*Term, n)
	for i := range r {
		r[i] = in.byteAt(o, p.Off+i)
	}
	return r
}

// ---------- globals ----------

func (in *Interp) globalPtr(g *ssa.Global) Ptr {
	if in.base != nil {
		if id, ok := in.base.globals[g]; ok {
			return Ptr{id, 0}
		}
	}
	if id, ok := in.globals[g]; ok {
		return Ptr{id, 0}
	}
	et := g.Type().(*types.Pointer).Elem()
	p := in.newObject(sizeof(et), et, "global:"+g.String())
	in.globals[g] = p.ID
	// lazily initialise the package on first touch of one of its globals
	if g.Pkg != nil {
		in.ensureInit(g.Pkg)
	}
	return p
}

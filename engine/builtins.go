package main

import (
	"fmt"
	"go/types"
	"strings"

	"golang.org/x/tools/go/ssa"
)

func (in *Interp) builtin(b *ssa.Builtin, args []Value, cc *ssa.CallCommon) Value {
	c := in.ctx
	switch b.Name() {
	case "len":
		switch x := args[0].(type) {
		case SliceV:
			return c.Const(64, uint64(x.Len))
		case StrV:
			return c.Const(64, uint64(x.Len))
		case MapV:
			if x.H == 0 {
				return c.Const(64, 0)
			}
			return c.Const(64, uint64(len(in.mapObj(x.H, false).vals)))
		case ChanV:
			if x.H == 0 {
				return c.Const(64, 0)
			}
			return c.Const(64, uint64(len(in.chans[x.H].buf)))
		case Ptr: // *array
			at := cc.Args[0].Type().Underlying().(*types.Pointer).Elem().Underlying().(*types.Array)
			return c.Const(64, uint64(at.Len()))
		case *ArrayV:
			return c.Const(64, uint64(len(x.E)))
		}
	case "cap":
		switch x := args[0].(type) {
		case SliceV:
			return c.Const(64, uint64(x.Cap))
		case ChanV:
			if x.H == 0 {
				return c.Const(64, 0)
			}
			return c.Const(64, uint64(in.chans[x.H].cap))
		case Ptr:
			at := cc.Args[0].Type().Underlying().(*types.Pointer).Elem().Underlying().(*types.Array)
			return c.Const(64, uint64(at.Len()))
		case *ArrayV:
			return c.Const(64, uint64(len(x.E)))
		}
	case "append":
		s := args[0].(SliceV)
		st := cc.Args[0].Type().Underlying().(*types.Slice)
		es := sizeof(st.Elem())
		var srcP Ptr
		var n int
		switch y := args[1].(type) {
		case SliceV:
			srcP, n = y.P, y.Len
		case StrV:
			srcP, n = y.P, y.Len
		default:
			in.fail("append of %T", args[1])
		}
		if n == 0 {
			return s
		}
		if s.Len+n <= s.Cap {
			in.memmove(Ptr{s.P.ID, s.P.Off + s.Len*es}, srcP, n*es)
			return SliceV{s.P, s.Len + n, s.Cap}
		}
		// grow like the runtime does for small sizes (exact capacity policy is not
		// observable through the language except via cap(); use doubling)
		nc := s.Cap * 2
		if nc < s.Len+n {
			nc = s.Len + n
		}
		if nc < 4 && es <= 8 {
			nc = s.Len + n
			if nc < 4 {
				nc = 4
			}
		}
		p := in.newObject(nc*es, st.Elem(), "append")
		if s.Len > 0 {
			in.memmove(p, s.P, s.Len*es)
		}
		in.memmove(Ptr{p.ID, s.Len * es}, srcP, n*es)
		return SliceV{p, s.Len + n, nc}
	case "copy":
		d := args[0].(SliceV)
		es := sizeof(cc.Args[0].Type().Underlying().(*types.Slice).Elem())
		var srcP Ptr
		var n int
		switch y := args[1].(type) {
		case SliceV:
			srcP, n = y.P, y.Len
		case StrV:
			srcP, n = y.P, y.Len
		}
		if d.Len < n {
			n = d.Len
		}
		if n > 0 {
			in.memmove(d.P, srcP, n*es)
		}
		return c.Const(64, uint64(n))
	case "clear":
		switch x := args[0].(type) {
		case SliceV:
			es := sizeof(cc.Args[0].Type().Underlying().(*types.Slice).Elem())
			in.memclr(x.P, x.Len*es)
		case MapV:
			if x.H != 0 {
				o := in.mapObj(x.H, true)
				o.keys = nil
				o.kvals = map[string]Value{}
				o.vals = map[string]Value{}
			}
		}
		return nil
	case "delete":
		in.mapDelete(args[0].(MapV), args[1])
		return nil
	case "min", "max":
		t := cc.Args[0].Type()
		r := args[0]
		for _, a := range args[1:] {
			switch x := r.(type) {
			case *Term:
				k, _ := scalarOf(t)
				y := a.(*Term)
				var lt *Term
				if k.float {
					if !(x.IsConst() && y.IsConst()) {
						in.fail("min/max on symbolic floats")
					}
					lt = c.FCmp(OpFLt, y, x)
				} else if k.signed {
					lt = c.Slt(y, x)
				} else {
					lt = c.Ult(y, x)
				}
				if b.Name() == "max" {
					if k.signed {
						lt = c.Slt(x, y)
					} else if !k.float {
						lt = c.Ult(x, y)
					} else {
						lt = c.FCmp(OpFLt, x, y)
					}
				}
				r = c.Ite(lt, y, x)
			default:
				in.fail("min/max on %T", r)
			}
		}
		return r
	case "panic":
		panic(&goPanic{val: args[0], kind: "explicit panic: " + in.describePanic(args[0]), pos: in.where()})
	case "recover":
		// valid only when called directly by a deferred function of a panicking frame
		fr := in.recoverFr
		if fr != nil && fr.panicking != nil && len(in.stack) == fr.depth+2 {
			gp := fr.panicking
			fr.panicking = nil
			fr.recovered = true
			if gp.val == nil {
				return &IfaceV{T: types.Typ[types.String], V: in.constString(gp.kind)}
			}
			return gp.val
		}
		return &IfaceV{}
	case "print", "println":
		return nil
	case "close":
		ch := args[0].(ChanV)
		if ch.H == 0 {
			in.gopanic("close of nil channel")
		}
		o := in.chans[ch.H]
		if o.closed {
			in.gopanic("close of closed channel")
		}
		o.closed = true
		return nil
	case "ssa:wrapnilchk":
		if p, ok := args[0].(Ptr); ok && p.ID == 0 {
			in.gopanic("value method called using nil pointer")
		}
		return args[0]
	case "Sizeof":
		return c.Const(64, uint64(sizeof(cc.Args[0].Type())))
	case "Alignof":
		return c.Const(64, uint64(sizes.Alignof(cc.Args[0].Type())))
	case "Add": // unsafe.Add
		p := args[0].(Ptr)
		n := in.concretize(args[1].(*Term), "unsafe.Add")
		return Ptr{p.ID, p.Off + int(n)}
	case "Slice": // unsafe.Slice
		p := args[0].(Ptr)
		n := int(in.concretize(args[1].(*Term), "unsafe.Slice"))
		if p.ID == 0 {
			if n == 0 {
				return SliceV{}
			}
			in.gopanic("unsafe.Slice: ptr is nil and len is not zero")
		}
		return SliceV{p, n, n}
	case "SliceData":
		s := args[0].(SliceV)
		return s.P
	case "String": // unsafe.String
		p := args[0].(Ptr)
		n := int(in.concretize(args[1].(*Term), "unsafe.String"))
		if n == 0 {
			return StrV{}
		}
		return StrV{p, n}
	case "StringData":
		return args[0].(StrV).P
	}
	in.fail("builtin %s on %T", b.Name(), firstOrNil(args))
	return nil
}

func firstOrNil(a []Value) Value {
	if len(a) == 0 {
		return nil
	}
	return a[0]
}

// ---------- intrinsics: harness API and library models ----------

func (in *Interp) intrinsic(fn *ssa.Function, args []Value) (bool, Value) {
	name := fn.Name()
	if fn.Pkg == nil {
		// synthetic wrappers, instantiations: use the origin's package
		if o := fn.Origin(); o != nil && o.Pkg != nil {
			return in.intrinsicIn(o.Pkg.Pkg.Path(), fn, name, args)
		}
		return false, nil
	}
	return in.intrinsicIn(fn.Pkg.Pkg.Path(), fn, name, args)
}

func (in *Interp) intrinsicIn(pkg string, fn *ssa.Function, name string, args []Value) (bool, Value) {
	if name == "init" && fn.Synthetic != "" && fn.Signature.Recv() == nil && len(in.stack) > 0 {
		// dependency initialisers are run lazily on first global access
		if strings.HasPrefix(fn.Synthetic, "package initializer") {
			caller := in.stack[len(in.stack)-1].fn
			if caller.Name() == "init" {
				return true, nil
			}
		}
	}
	if len(name) > 1 && name[0] == 'v' && name[1] >= 'A' && name[1] <= 'Z' && fn.Signature.Recv() == nil {
		if ok, r := in.harnessIntrinsic(fn, name, args); ok {
			return true, r
		}
	}
	if h, ok := libIntrinsics[pkg+"."+recvName(fn)+name]; ok {
		return true, h(in, fn, args)
	}
	return false, nil
}

func recvName(fn *ssa.Function) string {
	if r := fn.Signature.Recv(); r != nil {
		t := r.Type()
		if p, ok := t.(*types.Pointer); ok {
			t = p.Elem()
		}
		if n, ok := t.(*types.Named); ok {
			return n.Obj().Name() + "."
		}
	}
	return ""
}

func (in *Interp) freshVar(tag string, w uint8, kind string) *Term {
	if in.concrete {
		if in.forcedAt >= len(in.forced) {
			in.fail("concrete mode: ran out of forced nondet values at %s", tag)
		}
		f := in.forced[in.forcedAt]
		in.forcedAt++
		if f.Tag != tag || f.Kind != kind {
			in.fail("concrete mode: nondet mismatch: have %s/%s want %s/%s", f.Tag, f.Kind, tag, kind)
		}
		t := in.ctx.Const(w, f.Val)
		in.nondets = append(in.nondets, NondetRec{Tag: tag, Kind: kind, W: int(w), Val: f.Val, term: t})
		return t
	}
	n := len(in.nondets)
	name := fmt.Sprintf("nd%d_%s", n, sanitize(tag))
	t := in.ctx.Var(name, w)
	in.nondets = append(in.nondets, NondetRec{Tag: tag, Kind: kind, W: int(w), term: t})
	return t
}

func sanitize(s string) string {
	var sb strings.Builder
	for _, r := range s {
		if (r >= 'a' && r <= 'z') || (r >= 'A' && r <= 'Z') || (r >= '0' && r <= '9') || r == '_' {
			sb.WriteRune(r)
		} else {
			sb.WriteByte('_')
		}
	}
	return sb.String()
}

func (in *Interp) argInt(v Value, what string) int64 {
	t := v.(*Term)
	if !t.IsConst() {
		in.fail("%s must be concrete", what)
	}
	return signExt(t.val, t.w)
}

func (in *Interp) harnessIntrinsic(fn *ssa.Function, name string, args []Value) (bool, Value) {
	c := in.ctx
	tagOf := func(i int) string { return in.mustString(args[i].(StrV)) }
	switch name {
	case "vBool":
		t := in.freshVar(tagOf(0), 8, "bool")
		if !in.concrete {
			// bytes 0/1 only
			in.assumeTerm(c.Ule(t, c.Const(8, 1)))
		}
		return true, c.Eq(t, c.Const(8, 1))
	case "vU8", "vI8":
		return true, in.freshVar(tagOf(0), 8, name[1:])
	case "vU16", "vI16":
		return true, in.freshVar(tagOf(0), 16, name[1:])
	case "vU32", "vI32", "vF32":
		return true, in.freshVar(tagOf(0), 32, name[1:])
	case "vU64", "vI64", "vF64", "vInt", "vUint":
		return true, in.freshVar(tagOf(0), 64, name[1:])
	case "vBytes":
		n := int(in.argInt(args[1], "vBytes length"))
		tag := tagOf(0)
		p := in.newObject(n, types.Typ[types.Uint8], "vBytes:"+tag)
		o := in.objs[p.ID]
		for i := 0; i < n; i++ {
			in.setByte(o, i, in.freshVar(fmt.Sprintf("%s[%d]", tag, i), 8, "U8"))
		}
		return true, SliceV{p, n, n}
	case "vString":
		n := int(in.argInt(args[1], "vString length"))
		if n == 0 {
			return true, StrV{}
		}
		tag := tagOf(0)
		p := in.newObject(n, types.Typ[types.Uint8], "vString:"+tag)
		o := in.objs[p.ID]
		for i := 0; i < n; i++ {
			in.setByte(o, i, in.freshVar(fmt.Sprintf("%s[%d]", tag, i), 8, "U8"))
		}
		return true, StrV{p, n}
	case "vHavoc":
		s := args[1].(SliceV)
		tag := tagOf(0)
		if s.Len > 0 {
			o := in.checkAccess(s.P, s.Len, true)
			for i := 0; i < s.Len; i++ {
				in.setByte(o, s.P.Off+i, in.freshVar(fmt.Sprintf("%s[%d]", tag, i), 8, "U8"))
			}
		}
		return true, nil
	case "vChoose":
		lo, hi := in.argInt(args[1], "vChoose lo"), in.argInt(args[2], "vChoose hi")
		tag := tagOf(0)
		var v int64
		if in.concrete {
			if in.forcedAt >= len(in.forced) {
				in.fail("concrete mode: ran out of forced values at choose %s", tag)
			}
			f := in.forced[in.forcedAt]
			in.forcedAt++
			if f.Tag != tag || f.Kind != "choose" {
				in.fail("concrete mode: nondet mismatch: have %s/%s want %s/choose", f.Tag, f.Kind, tag)
			}
			v = int64(f.Val)
		} else {
			v = in.choose(lo, hi)
		}
		in.nondets = append(in.nondets, NondetRec{Tag: tag, Kind: "choose", W: 64, Val: uint64(v)})
		return true, c.Const(64, uint64(v))
	case "vTier":
		return true, c.Const(64, uint64(in.cfg.Tier))
	case "vAssume":
		t := args[0].(*Term)
		if t.IsConst() {
			if t.val == 0 {
				in.obs("assume=false")
				panic(pathAbort{"assume(false)"})
			}
			return true, nil
		}
		if in.feasible(t) == Unsat {
			panic(pathAbort{"assume infeasible"})
		}
		in.assumeTerm(t)
		return true, nil
	case "vAssert":
		in.assertion(args[0].(*Term), in.mustString(args[1].(StrV)))
		return true, nil
	case "vCover":
		tag := tagOf(0)
		in.res.Covers[tag]++
		in.obs("cover:" + tag)
		return true, nil
	case "vUnwind":
		in.unwind = int(in.argInt(args[0], "vUnwind"))
		return true, nil
	case "vAll":
		s := args[0].(SliceV)
		r := c.Bool(true)
		for i := 0; i < s.Len; i++ {
			b := in.load(Ptr{s.P.ID, s.P.Off + i}, types.Typ[types.Bool]).(*Term)
			r = c.And(r, b)
		}
		return true, r
	case "vAny":
		s := args[0].(SliceV)
		r := c.Bool(false)
		for i := 0; i < s.Len; i++ {
			b := in.load(Ptr{s.P.ID, s.P.Off + i}, types.Typ[types.Bool]).(*Term)
			r = c.Or(r, b)
		}
		return true, r
	case "vImplies":
		return true, c.Or(c.Not(args[0].(*Term)), args[1].(*Term))
	case "vIteInt":
		return true, c.Ite(args[0].(*Term), args[1].(*Term), args[2].(*Term))
	case "vBytesEq":
		a, b := args[0].(SliceV), args[1].(SliceV)
		if a.Len != b.Len {
			return true, c.Bool(false)
		}
		return true, in.bytesEq(a.P, b.P, a.Len)
	case "vObserveInt":
		t := args[1].(*Term)
		if t.IsConst() {
			in.obs(fmt.Sprintf("%s=%d", tagOf(0), signExt(t.val, t.w)))
		}
		return true, nil
	case "vObserveBool":
		t := args[1].(*Term)
		if t.IsConst() {
			in.obs(fmt.Sprintf("%s=%v", tagOf(0), t.val == 1))
		}
		return true, nil
	case "vObserveBytes":
		s := args[1].(SliceV)
		bs := in.bytesOf(s.P, s.Len)
		var sb strings.Builder
		allc := true
		for _, b := range bs {
			if !b.IsConst() {
				allc = false
				break
			}
			fmt.Fprintf(&sb, "%02x", b.val)
		}
		if allc {
			in.obs(fmt.Sprintf("%s=%s", tagOf(0), sb.String()))
		}
		return true, nil
	case "vTry":
		f := args[0]
		panicked := false
		depth := len(in.stack)
		func() {
			defer func() {
				if r := recover(); r != nil {
					if _, ok := r.(*goPanic); ok {
						panicked = true
						in.stack = in.stack[:depth]
						return
					}
					panic(r)
				}
			}()
			in.callValue(f, nil, nil)
		}()
		return true, c.Bool(panicked)
	case "vAbstractCRC":
		in.abstractCRC = true
		return true, nil
	case "vAbstractCRCFixedWidth":
		in.abstractCRC = true
		in.crcFixedWidth = true
		return true, nil
	case "vLearnBits":
		// prove x < 2^w under the path condition, then let the simplifier use it
		x := args[0].(*Term)
		w := uint8(in.argInt(args[1], "vLearnBits width"))
		if x.op == OpZext {
			x = x.a
		}
		if in.concrete || x.IsConst() || w >= x.w {
			return true, nil
		}
		hi := c.Extract(x, x.w-1, w)
		q := c.Not(c.Eq(hi, c.Const(hi.w, 0)))
		if q.IsConst() {
			return true, nil
		}
		in.checkDeadline()
		if r, _ := in.sol.Check(q, nil); r == Unsat {
			in.ctx.learnMaxBits(x, w)
			in.res.Learned++
		}
		return true, nil
	case "vIsReleased":
		p := args[0].(SliceV)
		if p.P.ID == 0 {
			return true, c.Bool(false)
		}
		return true, c.Bool(in.obj(p.P.ID).released)
	case "vOverlap":
		a, b := args[0].(SliceV), args[1].(SliceV)
		if a.Cap == 0 || b.Cap == 0 || a.P.ID == 0 || a.P.ID != b.P.ID {
			return true, c.Bool(false)
		}
		return true, c.Bool(a.P.Off < b.P.Off+b.Cap && b.P.Off < a.P.Off+a.Cap)
	}
	return false, nil
}

func (in *Interp) obs(s string) {
	if in.concrete {
		in.obsLog = append(in.obsLog, s)
	}
}

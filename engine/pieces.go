package main

// Bit-slice normal form used to merge ORs of disjoint fields back into the
// term they were cut from (byte reassembly, varints, bit packing), plus
// path-condition facts ("x fits in w bits", "x is negative") that the engine
// has proved with the solver and that the simplifier may then use.

type piece struct {
	w    uint8 // width of this piece
	base *Term // nil: constant
	lo   uint8 // base bits [lo+w-1 : lo]
	neg  bool  // bitwise complement of the base slice
	cval uint64
}

// piecesOf decomposes t into pieces from high to low; ok=false if t is not a
// pure slice composition.
func (c *Ctx) piecesOf(t *Term, out []piece, budget *int) ([]piece, bool) {
	if *budget <= 0 {
		return out, false
	}
	*budget--
	switch t.op {
	case OpConst:
		return append(out, piece{w: t.w, cval: t.val}), true
	case OpConcat:
		var ok bool
		out, ok = c.piecesOf(t.a, out, budget)
		if !ok {
			return out, false
		}
		return c.piecesOf(t.b, out, budget)
	case OpZext:
		out = append(out, piece{w: t.w - t.a.w, cval: 0})
		return c.piecesOf(t.a, out, budget)
	case OpExtract:
		return append(out, piece{w: t.w, base: t.a, lo: uint8(t.val)}), true
	case OpBvNot:
		if t.a.op == OpExtract {
			return append(out, piece{w: t.w, base: t.a.a, lo: uint8(t.a.val), neg: true}), true
		}
		return append(out, piece{w: t.w, base: t.a, lo: 0, neg: true}), true
	case OpVar:
		return append(out, piece{w: t.w, base: t, lo: 0}), true
	}
	// any other term is an opaque full-width base
	return append(out, piece{w: t.w, base: t, lo: 0}), true
}

func (p piece) isZero() bool { return p.base == nil && p.cval == 0 }

func (c *Ctx) pieceTerm(p piece) *Term {
	if p.base == nil {
		return c.Const(p.w, p.cval)
	}
	e := c.Extract(p.base, p.lo+p.w-1, p.lo)
	if p.neg {
		return c.BvNot(e)
	}
	return e
}

// splitAt cuts the piece list so that a boundary exists at bit position pos
// (counted from the low end). Lists are high-to-low.
func splitPieces(ps []piece, cuts map[int]bool) []piece {
	var out []piece
	// compute positions from low end
	total := 0
	for _, p := range ps {
		total += int(p.w)
	}
	hiPos := total
	for _, p := range ps {
		loPos := hiPos - int(p.w)
		// cuts strictly inside (loPos, hiPos)
		cur := p
		curHi := hiPos
		for pos := hiPos - 1; pos > loPos; pos-- {
			if cuts[pos] {
				// upper part [curHi-1 : pos]
				upW := uint8(curHi - pos)
				up := cur
				up.w = upW
				if cur.base != nil {
					up.lo = cur.lo + (cur.w - upW)
				} else {
					up.cval = cur.cval >> (cur.w - upW)
				}
				out = append(out, up)
				cur.w -= upW
				if cur.base == nil {
					cur.cval &= mask(cur.w)
				}
				curHi = pos
			}
		}
		out = append(out, cur)
		hiPos = loPos
	}
	return out
}

func boundaries(ps []piece) map[int]bool {
	m := map[int]bool{}
	total := 0
	for _, p := range ps {
		total += int(p.w)
	}
	pos := total
	for _, p := range ps {
		pos -= int(p.w)
		m[pos] = true
	}
	return m
}

// mergeOr tries to compute a|b as a slice composition when, at every bit
// range, at least one side is constant zero (or both sides are identical).
func (c *Ctx) mergeOr(a, b *Term) *Term {
	if a.w > 64 || a.size > 200 || b.size > 200 {
		return nil
	}
	budget := 40
	pa, ok := c.piecesOf(a, nil, &budget)
	if !ok {
		return nil
	}
	pb, ok := c.piecesOf(b, nil, &budget)
	if !ok {
		return nil
	}
	// a side that is a single opaque full-width base gives nothing to merge
	if len(pa) == 1 && len(pb) == 1 {
		return nil
	}
	ca, cb := boundaries(pa), boundaries(pb)
	pa = splitPieces(pa, cb)
	pb = splitPieces(pb, ca)
	if len(pa) != len(pb) {
		return nil
	}
	var res *Term
	for i := range pa {
		x, y := pa[i], pb[i]
		if x.w != y.w {
			return nil
		}
		var t *Term
		switch {
		case x.isZero():
			t = c.pieceTerm(y)
		case y.isZero():
			t = c.pieceTerm(x)
		case x.base == nil && y.base == nil:
			t = c.Const(x.w, x.cval|y.cval)
		case x.base == y.base && x.lo == y.lo && x.neg == y.neg && x.base != nil:
			t = c.pieceTerm(x)
		default:
			return nil
		}
		if res == nil {
			res = t
		} else {
			res = c.Concat(res, t)
		}
	}
	return res
}

// ---------- facts proved under the current path condition ----------

// maxBits[x] = w means the engine proved x < 2^w (unsigned) on this path.
// negative[x] means the sign bit of x is known to be 1.
func (c *Ctx) learnMaxBits(x *Term, w uint8) {
	if x.IsConst() || w >= x.w {
		return
	}
	if c.maxBits == nil {
		c.maxBits = map[*Term]uint8{}
	}
	if old, ok := c.maxBits[x]; !ok || w < old {
		c.maxBits[x] = w
	}
}

func (c *Ctx) learnNegative(x *Term) {
	if c.negative == nil {
		c.negative = map[*Term]bool{}
	}
	c.negative[x] = true
}

// noteAssumed records simple sign facts from a conjunct added to the path condition.
func (c *Ctx) noteAssumed(t *Term) {
	neg := false
	if t.op == OpNot {
		neg = true
		t = t.a
	}
	switch t.op {
	case OpSlt:
		// x <s 0
		if t.b.IsConst() && t.b.val == 0 && !t.a.IsConst() {
			if neg {
				c.learnMaxBits(t.a, t.a.w-1)
			} else {
				c.learnNegative(t.a)
			}
		}
	case OpSle:
		// 0 <=s x
		if t.a.IsConst() && t.a.val == 0 && !t.b.IsConst() {
			if neg {
				c.learnNegative(t.b)
			} else {
				c.learnMaxBits(t.b, t.b.w-1)
			}
		}
	case OpUlt:
		// x <u 2^k
		if !neg && t.b.IsConst() && t.b.val != 0 && t.b.val&(t.b.val-1) == 0 && !t.a.IsConst() {
			k := uint8(0)
			for v := t.b.val; v > 1; v >>= 1 {
				k++
			}
			c.learnMaxBits(t.a, k)
		}
	case OpEq:
		// extract(x, w-1, k) == 0
		a, b := t.a, t.b
		if a.IsConst() {
			a, b = b, a
		}
		if !neg && b.IsConst() && b.val == 0 && a.op == OpExtract && uint8(a.val>>8) == a.a.w-1 {
			c.learnMaxBits(a.a, uint8(a.val))
		}
	}
}

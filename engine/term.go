package main

// Term DAG for bit-vector / boolean expressions with constant folding and
// local simplification. One Ctx per explored path; nothing is shared between
// paths so no locking is needed.

import (
	"fmt"
	"math"
	"math/bits"
	"strings"
)

type Op uint8

const (
	OpConst Op = iota
	OpVar
	// boolean
	OpNot
	OpAnd
	OpOr
	OpIte // a ? b : c (bool or bv result)
	OpEq
	OpUlt
	OpUle
	OpSlt
	OpSle
	// bit-vector
	OpBvNot
	OpBvNeg
	OpBvAnd
	OpBvOr
	OpBvXor
	OpAdd
	OpSub
	OpMul
	OpUDiv
	OpURem
	OpSDiv
	OpSRem
	OpShl
	OpLshr
	OpAshr
	OpConcat  // a high, b low
	OpExtract // val = hi<<8|lo
	OpZext    // to width w
	OpSext
	// floating point over IEEE bit patterns (a,b are bit-vectors)
	OpFLt
	OpFLe
	OpFEq
	OpFIsNaN
	OpFToSInt // float bits -> signed int of width w (RTZ); val = source width
	OpFToUInt
	OpSIntToF // signed int -> float bits of width w; z3 only (fp.to_ieee_bv)
	OpUIntToF
	OpFToF   // float width conversion; z3 only
	OpFArith // val = '+','-','*','/' ; z3 only
	OpFNeg
)

type Term struct {
	op      Op
	w       uint8 // 0 = Bool
	a, b, c *Term
	val     uint64
	name    string
	id      uint32
	size    uint32
	smt     string
	smtGen  uint32
}

func (t *Term) IsConst() bool { return t.op == OpConst }
func (t *Term) IsBool() bool  { return t.w == 0 }
func (t *Term) IsTrue() bool  { return t.op == OpConst && t.w == 0 && t.val == 1 }
func (t *Term) IsFalse() bool { return t.op == OpConst && t.w == 0 && t.val == 0 }

type termKey struct {
	op      Op
	w       uint8
	a, b, c uint32
	val     uint64
	name    string
}

type Ctx struct {
	tab    map[termKey]*Term
	nextID uint32
	vars   []*Term
	consts map[uint64]*Term // small cache keyed by w<<56^val for w<=8... see Const

	maxBits  map[*Term]uint8 // facts proved under the path condition (pieces.go)
	negative map[*Term]bool
}

func NewCtx() *Ctx {
	return &Ctx{tab: make(map[termKey]*Term, 1024), nextID: 1, consts: make(map[uint64]*Term, 64)}
}

func mask(w uint8) uint64 {
	if w >= 64 {
		return ^uint64(0)
	}
	return (uint64(1) << w) - 1
}

func signExt(v uint64, w uint8) int64 {
	if w >= 64 {
		return int64(v)
	}
	sh := 64 - uint(w)
	return int64(v<<sh) >> sh
}

func (c *Ctx) Const(w uint8, v uint64) *Term {
	if w == 0 {
		v &= 1
	} else {
		v &= mask(w)
	}
	if v < 512 {
		k := uint64(w)<<32 | v
		if t, ok := c.consts[k]; ok {
			return t
		}
		t := &Term{op: OpConst, w: w, val: v, id: c.nextID, size: 1}
		c.nextID++
		c.consts[k] = t
		return t
	}
	t := &Term{op: OpConst, w: w, val: v, id: c.nextID, size: 1}
	c.nextID++
	return t
}

func (c *Ctx) Bool(b bool) *Term {
	if b {
		return c.Const(0, 1)
	}
	return c.Const(0, 0)
}

func (c *Ctx) Var(name string, w uint8) *Term {
	k := termKey{op: OpVar, w: w, name: name}
	if t, ok := c.tab[k]; ok {
		return t
	}
	t := &Term{op: OpVar, w: w, name: name, id: c.nextID, size: 1}
	c.nextID++
	c.tab[k] = t
	c.vars = append(c.vars, t)
	return t
}

func idOf(t *Term) uint32 {
	if t == nil {
		return 0
	}
	return t.id
}

func (c *Ctx) mk(op Op, w uint8, a, b, cc *Term, val uint64) *Term {
	// consts are not interned, so key them by value through a canonical const
	k := termKey{op: op, w: w, a: idOf(a), b: idOf(b), c: idOf(cc), val: val}
	if a != nil && a.IsConst() && a.val >= 512 {
		a = c.internConst(a)
		k.a = a.id
	}
	if b != nil && b.IsConst() && b.val >= 512 {
		b = c.internConst(b)
		k.b = b.id
	}
	if cc != nil && cc.IsConst() && cc.val >= 512 {
		cc = c.internConst(cc)
		k.c = cc.id
	}
	if t, ok := c.tab[k]; ok {
		return t
	}
	sz := uint32(1)
	for _, x := range []*Term{a, b, cc} {
		if x != nil {
			if sz+x.size < sz {
				sz = math.MaxUint32
			} else {
				sz += x.size
			}
		}
	}
	t := &Term{op: op, w: w, a: a, b: b, c: cc, val: val, id: c.nextID, size: sz}
	c.nextID++
	c.tab[k] = t
	return t
}

func (c *Ctx) internConst(t *Term) *Term {
	k := termKey{op: OpConst, w: t.w, val: t.val}
	if x, ok := c.tab[k]; ok {
		return x
	}
	c.tab[k] = t
	return t
}

func same(a, b *Term) bool {
	if a == b {
		return true
	}
	return a.op == OpConst && b.op == OpConst && a.w == b.w && a.val == b.val
}

// ---------- boolean ----------

func (c *Ctx) Not(a *Term) *Term {
	if a.IsConst() {
		return c.Bool(a.val == 0)
	}
	if a.op == OpNot {
		return a.a
	}
	return c.mk(OpNot, 0, a, nil, nil, 0)
}

func (c *Ctx) And(a, b *Term) *Term {
	if a.IsConst() {
		if a.val == 0 {
			return a
		}
		return b
	}
	if b.IsConst() {
		if b.val == 0 {
			return b
		}
		return a
	}
	if a == b {
		return a
	}
	if a.id > b.id {
		a, b = b, a
	}
	return c.mk(OpAnd, 0, a, b, nil, 0)
}

func (c *Ctx) Or(a, b *Term) *Term {
	if a.IsConst() {
		if a.val == 1 {
			return a
		}
		return b
	}
	if b.IsConst() {
		if b.val == 1 {
			return b
		}
		return a
	}
	if a == b {
		return a
	}
	if a.id > b.id {
		a, b = b, a
	}
	return c.mk(OpOr, 0, a, b, nil, 0)
}

func (c *Ctx) Ite(cond, a, b *Term) *Term {
	if cond.IsConst() {
		if cond.val == 1 {
			return a
		}
		return b
	}
	if same(a, b) {
		return a
	}
	if a.w == 0 {
		if a.IsConst() && b.IsConst() {
			if a.val == 1 {
				return cond
			}
			return c.Not(cond)
		}
		if a.IsConst() {
			if a.val == 1 {
				return c.Or(cond, b)
			}
			return c.And(c.Not(cond), b)
		}
		if b.IsConst() {
			if b.val == 1 {
				return c.Or(c.Not(cond), a)
			}
			return c.And(cond, a)
		}
	}
	if cond.op == OpNot {
		return c.mk(OpIte, a.w, cond.a, b, a, 0)
	}
	return c.mk(OpIte, a.w, cond, a, b, 0)
}

func (c *Ctx) Eq(a, b *Term) *Term {
	if a.w != b.w {
		panic(fmt.Sprintf("Eq width mismatch %d %d", a.w, b.w))
	}
	if same(a, b) {
		return c.Bool(true)
	}
	if a.IsConst() && b.IsConst() {
		return c.Bool(a.val == b.val)
	}
	if a.w == 0 {
		if a.IsConst() {
			a, b = b, a
		}
		if b.IsConst() {
			if b.val == 1 {
				return a
			}
			return c.Not(a)
		}
	}
	// eq(ite(c,k1,k2), k) with constants
	if b.IsConst() && a.op == OpIte && a.b.IsConst() && a.c.IsConst() {
		x, y := a.b.val == b.val, a.c.val == b.val
		switch {
		case x && y:
			return c.Bool(true)
		case x:
			return a.a
		case y:
			return c.Not(a.a)
		default:
			return c.Bool(false)
		}
	}
	if a.IsConst() && b.op == OpIte && b.b.IsConst() && b.c.IsConst() {
		return c.Eq(b, a)
	}
	// (odd << s) == 0 is false when s is provably below the width
	if b.IsConst() && b.val == 0 && a.op == OpShl && a.a.IsConst() && a.a.val&1 == 1 && a.b.op == OpZext && a.b.a.w < 7 && (uint64(1)<<a.b.a.w) <= uint64(a.w) {
		return c.Bool(false)
	}
	if a.IsConst() && a.val == 0 && b.op == OpShl {
		return c.Eq(b, a)
	}
	// zext(x)==const
	if b.IsConst() && a.op == OpZext {
		if b.val>>a.a.w != 0 {
			return c.Bool(false)
		}
		return c.Eq(a.a, c.Const(a.a.w, b.val))
	}
	if a.IsConst() && b.op == OpZext {
		return c.Eq(b, a)
	}
	if a.op == OpZext && b.op == OpZext && a.a.w == b.a.w {
		return c.Eq(a.a, b.a)
	}
	if a.id > b.id {
		a, b = b, a
	}
	return c.mk(OpEq, 0, a, b, nil, 0)
}

// ubound returns a cheap syntactic upper bound of an unsigned term.
func (c *Ctx) ubound(t *Term) uint64 {
	switch t.op {
	case OpConst:
		return t.val
	case OpZext:
		return c.ubound(t.a)
	case OpBvAnd:
		x, y := c.ubound(t.a), c.ubound(t.b)
		if x < y {
			return x
		}
		return y
	case OpIte:
		x, y := c.ubound(t.b), c.ubound(t.c)
		if x > y {
			return x
		}
		return y
	}
	if mb, ok := c.maxBits[t]; ok {
		return mask(mb)
	}
	return mask(t.w)
}

func (c *Ctx) Ult(a, b *Term) *Term {
	if a.IsConst() && b.IsConst() {
		return c.Bool(a.val < b.val)
	}
	if a.IsConst() && !b.IsConst() && a.val >= c.ubound(b) {
		return c.Bool(false)
	}
	if b.IsConst() && !a.IsConst() && c.ubound(a) < b.val {
		return c.Bool(true)
	}
	if same(a, b) {
		return c.Bool(false)
	}
	if b.IsConst() && b.val == 0 {
		return c.Bool(false)
	}
	if a.IsConst() && a.val == mask(a.w) {
		return c.Bool(false)
	}
	if a.op == OpZext && b.IsConst() && b.val > mask(a.a.w) {
		return c.Bool(true)
	}
	if a.op == OpZext && b.op == OpZext && a.a.w == b.a.w {
		return c.Ult(a.a, b.a)
	}
	return c.mk(OpUlt, 0, a, b, nil, 0)
}
func (c *Ctx) Ule(a, b *Term) *Term {
	if a.IsConst() && b.IsConst() {
		return c.Bool(a.val <= b.val)
	}
	if a.IsConst() && !b.IsConst() && a.val > c.ubound(b) {
		return c.Bool(false)
	}
	if b.IsConst() && !a.IsConst() && c.ubound(a) <= b.val {
		return c.Bool(true)
	}
	if same(a, b) {
		return c.Bool(true)
	}
	if a.IsConst() && a.val == 0 {
		return c.Bool(true)
	}
	if b.IsConst() && b.val == mask(b.w) {
		return c.Bool(true)
	}
	if a.op == OpZext && b.IsConst() && b.val >= mask(a.a.w) {
		return c.Bool(true)
	}
	return c.mk(OpUle, 0, a, b, nil, 0)
}
func (c *Ctx) Slt(a, b *Term) *Term {
	if a.IsConst() && b.IsConst() {
		return c.Bool(signExt(a.val, a.w) < signExt(b.val, b.w))
	}
	if same(a, b) {
		return c.Bool(false)
	}
	// both zero-extended from narrower: sign bit clear
	if a.op == OpZext && a.a.w < a.w {
		if b.IsConst() && signExt(b.val, b.w) > int64(mask(a.a.w)) {
			return c.Bool(true)
		}
		if b.IsConst() && signExt(b.val, b.w) <= 0 {
			return c.Bool(false)
		}
	}
	if b.op == OpZext && b.a.w < b.w {
		if a.IsConst() && signExt(a.val, a.w) < 0 {
			return c.Bool(true)
		}
	}
	return c.mk(OpSlt, 0, a, b, nil, 0)
}
func (c *Ctx) Sle(a, b *Term) *Term {
	if a.IsConst() && b.IsConst() {
		return c.Bool(signExt(a.val, a.w) <= signExt(b.val, b.w))
	}
	if same(a, b) {
		return c.Bool(true)
	}
	if a.op == OpZext && a.a.w < a.w {
		if b.IsConst() && signExt(b.val, b.w) >= int64(mask(a.a.w)) {
			return c.Bool(true)
		}
		if b.IsConst() && signExt(b.val, b.w) < 0 {
			return c.Bool(false)
		}
	}
	if b.op == OpZext && b.a.w < b.w {
		if a.IsConst() && signExt(a.val, a.w) <= 0 {
			return c.Bool(true)
		}
	}
	return c.mk(OpSle, 0, a, b, nil, 0)
}

// ---------- bit-vector ----------

func (c *Ctx) BvNot(a *Term) *Term {
	if a.IsConst() {
		return c.Const(a.w, ^a.val)
	}
	if a.op == OpBvNot {
		return a.a
	}
	if a.op == OpZext && a.a.op == OpBvNot {
		k := a.w - a.a.w
		return c.Concat(c.Const(k, mask(k)), a.a.a)
	}
	if a.op == OpConcat && a.a.IsConst() {
		return c.Concat(c.Const(a.a.w, ^a.a.val), c.BvNot(a.b))
	}
	if a.op == OpConcat && a.b.IsConst() {
		return c.Concat(c.BvNot(a.a), c.Const(a.b.w, ^a.b.val))
	}
	return c.mk(OpBvNot, a.w, a, nil, nil, 0)
}
func (c *Ctx) Neg(a *Term) *Term {
	if a.IsConst() {
		return c.Const(a.w, -a.val)
	}
	if a.op == OpBvNeg {
		return a.a
	}
	return c.mk(OpBvNeg, a.w, a, nil, nil, 0)
}

func (c *Ctx) BvAnd(a, b *Term) *Term {
	if a.IsConst() && b.IsConst() {
		return c.Const(a.w, a.val&b.val)
	}
	if a.IsConst() {
		a, b = b, a
	}
	if b.IsConst() {
		if b.val == 0 {
			return b
		}
		if b.val == mask(a.w) {
			return a
		}
		// low mask: zext(extract)
		if b.val&(b.val+1) == 0 {
			m := uint8(bits.Len64(b.val))
			return c.Zext(c.Extract(a, m-1, 0), a.w)
		}
		if a.op == OpZext && b.val&mask(a.a.w) == mask(a.a.w) {
			return a
		}
		if a.op == OpBvAnd && a.b.IsConst() {
			return c.BvAnd(a.a, c.Const(a.w, a.b.val&b.val))
		}
	}
	if same(a, b) {
		return a
	}
	// absorption: (x | y) & x = x
	if a.op == OpBvOr && (a.a == b || a.b == b) {
		return b
	}
	if b.op == OpBvOr && (b.a == a || b.b == a) {
		return a
	}
	if !b.IsConst() && a.id > b.id {
		a, b = b, a
	}
	return c.mk(OpBvAnd, a.w, a, b, nil, 0)
}
func (c *Ctx) BvOr(a, b *Term) *Term {
	if a.IsConst() && b.IsConst() {
		return c.Const(a.w, a.val|b.val)
	}
	if a.IsConst() {
		a, b = b, a
	}
	if b.IsConst() {
		if b.val == 0 {
			return a
		}
		if b.val == mask(a.w) {
			return b
		}
	}
	if same(a, b) {
		return a
	}
	if m := c.mergeOr(a, b); m != nil {
		return m
	}
	if !b.IsConst() && a.id > b.id {
		a, b = b, a
	}
	return c.mk(OpBvOr, a.w, a, b, nil, 0)
}
func (c *Ctx) BvXor(a, b *Term) *Term {
	if a.IsConst() && b.IsConst() {
		return c.Const(a.w, a.val^b.val)
	}
	if a.IsConst() {
		a, b = b, a
	}
	if b.IsConst() {
		if b.val == 0 {
			return a
		}
		if b.val == mask(a.w) {
			return c.BvNot(a)
		}
	}
	if same(a, b) {
		return c.Const(a.w, 0)
	}
	if !b.IsConst() && a.id > b.id {
		a, b = b, a
	}
	return c.mk(OpBvXor, a.w, a, b, nil, 0)
}

func (c *Ctx) Add(a, b *Term) *Term {
	if a.w != b.w {
		panic(fmt.Sprintf("Add width mismatch %d %d", a.w, b.w))
	}
	if a.IsConst() && b.IsConst() {
		return c.Const(a.w, a.val+b.val)
	}
	if a.IsConst() {
		a, b = b, a
	}
	if b.IsConst() {
		if b.val == 0 {
			return a
		}
		if a.op == OpAdd && a.b.IsConst() {
			return c.Add(a.a, c.Const(a.w, a.b.val+b.val))
		}
		if a.op == OpSub && a.b.IsConst() {
			return c.Add(a.a, c.Const(a.w, b.val-a.b.val))
		}
		return c.mk(OpAdd, a.w, a, b, nil, 0)
	}
	// (x - y) + y -> x
	if a.op == OpSub && same(a.b, b) {
		return a.a
	}
	if b.op == OpSub && same(b.b, a) {
		return b.a
	}
	if a.op == OpBvNeg {
		return c.Sub(b, a.a)
	}
	if b.op == OpBvNeg {
		return c.Sub(a, b.a)
	}
	if a.id > b.id {
		a, b = b, a
	}
	return c.mk(OpAdd, a.w, a, b, nil, 0)
}
func (c *Ctx) Sub(a, b *Term) *Term {
	if a.w != b.w {
		panic(fmt.Sprintf("Sub width mismatch %d %d", a.w, b.w))
	}
	if a.IsConst() && b.IsConst() {
		return c.Const(a.w, a.val-b.val)
	}
	if same(a, b) {
		return c.Const(a.w, 0)
	}
	if b.IsConst() {
		if b.val == 0 {
			return a
		}
		return c.Add(a, c.Const(a.w, -b.val))
	}
	if a.IsConst() && a.val == 0 {
		return c.Neg(b)
	}
	// (x + y) - y -> x ; (x + y) - x -> y
	if a.op == OpAdd {
		if same(a.b, b) {
			return a.a
		}
		if same(a.a, b) {
			return a.b
		}
	}
	// x - (x - y) -> y
	if b.op == OpSub && same(b.a, a) {
		return b.b
	}
	return c.mk(OpSub, a.w, a, b, nil, 0)
}
func (c *Ctx) Mul(a, b *Term) *Term {
	if a.IsConst() && b.IsConst() {
		return c.Const(a.w, a.val*b.val)
	}
	if a.IsConst() {
		a, b = b, a
	}
	if b.IsConst() {
		if b.val == 0 {
			return b
		}
		if b.val == 1 {
			return a
		}
		if b.val&(b.val-1) == 0 {
			return c.Shl(a, c.Const(a.w, uint64(bits.TrailingZeros64(b.val))))
		}
	}
	if !b.IsConst() && a.id > b.id {
		a, b = b, a
	}
	return c.mk(OpMul, a.w, a, b, nil, 0)
}
func (c *Ctx) UDiv(a, b *Term) *Term {
	if a.IsConst() && b.IsConst() && b.val != 0 {
		return c.Const(a.w, a.val/b.val)
	}
	if b.IsConst() && b.val == 1 {
		return a
	}
	if b.IsConst() && b.val != 0 && b.val&(b.val-1) == 0 {
		return c.Lshr(a, c.Const(a.w, uint64(bits.TrailingZeros64(b.val))))
	}
	return c.mk(OpUDiv, a.w, a, b, nil, 0)
}
func (c *Ctx) URem(a, b *Term) *Term {
	if a.IsConst() && b.IsConst() && b.val != 0 {
		return c.Const(a.w, a.val%b.val)
	}
	if b.IsConst() && b.val != 0 && b.val&(b.val-1) == 0 {
		return c.BvAnd(a, c.Const(a.w, b.val-1))
	}
	return c.mk(OpURem, a.w, a, b, nil, 0)
}
func (c *Ctx) SDiv(a, b *Term) *Term {
	if a.IsConst() && b.IsConst() && b.val != 0 {
		x, y := signExt(a.val, a.w), signExt(b.val, b.w)
		if y == -1 {
			return c.Const(a.w, uint64(-x))
		}
		return c.Const(a.w, uint64(x/y))
	}
	if b.IsConst() && b.val == 1 {
		return a
	}
	return c.mk(OpSDiv, a.w, a, b, nil, 0)
}
func (c *Ctx) SRem(a, b *Term) *Term {
	if a.IsConst() && b.IsConst() && b.val != 0 {
		x, y := signExt(a.val, a.w), signExt(b.val, b.w)
		if y == -1 {
			return c.Const(a.w, 0)
		}
		return c.Const(a.w, uint64(x%y))
	}
	return c.mk(OpSRem, a.w, a, b, nil, 0)
}

// shifts: b has the same width as a and is the exact (already range-checked) count
func (c *Ctx) Shl(a, b *Term) *Term {
	if b.IsConst() {
		if b.val == 0 {
			return a
		}
		if b.val >= uint64(a.w) {
			return c.Const(a.w, 0)
		}
		if a.IsConst() {
			return c.Const(a.w, a.val<<b.val)
		}
		k := uint8(b.val)
		return c.Concat(c.Extract(a, a.w-1-k, 0), c.Const(k, 0))
	}
	if a.IsConst() && a.val == 0 {
		return a
	}
	return c.mk(OpShl, a.w, a, b, nil, 0)
}
func (c *Ctx) Lshr(a, b *Term) *Term {
	if b.IsConst() {
		if b.val == 0 {
			return a
		}
		if b.val >= uint64(a.w) {
			return c.Const(a.w, 0)
		}
		if a.IsConst() {
			return c.Const(a.w, a.val>>b.val)
		}
		k := uint8(b.val)
		return c.Zext(c.Extract(a, a.w-1, k), a.w)
	}
	if a.IsConst() && a.val == 0 {
		return a
	}
	return c.mk(OpLshr, a.w, a, b, nil, 0)
}
func (c *Ctx) Ashr(a, b *Term) *Term {
	if b.IsConst() {
		if b.val == 0 {
			return a
		}
		if a.IsConst() {
			k := b.val
			if k >= uint64(a.w) {
				k = uint64(a.w) - 1
			}
			return c.Const(a.w, uint64(signExt(a.val, a.w)>>k))
		}
		if b.val >= uint64(a.w) {
			b = c.Const(a.w, uint64(a.w)-1)
		}
		k := uint8(b.val)
		return c.Sext(c.Extract(a, a.w-1, k), a.w)
	}
	return c.mk(OpAshr, a.w, a, b, nil, 0)
}

func (c *Ctx) Concat(hi, lo *Term) *Term {
	w := hi.w + lo.w
	if w > 64 || hi.w == 0 || lo.w == 0 {
		panic(fmt.Sprintf("Concat widths %d %d", hi.w, lo.w))
	}
	if hi.IsConst() && lo.IsConst() {
		return c.Const(w, hi.val<<lo.w|lo.val)
	}
	// adjacent extracts of the same term
	if hi.op == OpExtract && lo.op == OpExtract && hi.a == lo.a {
		hh, hl := uint8(hi.val>>8), uint8(hi.val)
		lh, ll := uint8(lo.val>>8), uint8(lo.val)
		if hl == lh+1 {
			return c.Extract(hi.a, hh, ll)
		}
	}
	// concat(hi, concat(x, y)) where hi and x are adjacent extracts
	if hi.op == OpExtract && lo.op == OpConcat && lo.a.op == OpExtract && lo.a.a == hi.a {
		hh, hl := uint8(hi.val>>8), uint8(hi.val)
		lh, ll := uint8(lo.a.val>>8), uint8(lo.a.val)
		if hl == lh+1 {
			return c.Concat(c.Extract(hi.a, hh, ll), lo.b)
		}
	}
	if hi.IsConst() && hi.val == 0 {
		return c.Zext(lo, w)
	}
	if hi.op == OpBvNot && lo.op == OpBvNot {
		if m := c.Concat(hi.a, lo.a); m.op != OpConcat {
			return c.BvNot(m)
		}
	}
	if hi.IsConst() && hi.w == 1 && hi.val == 1 && lo.op == OpExtract && uint8(lo.val) == 0 && lo.a.w == w && c.negative[lo.a] {
		return lo.a
	}
	return c.mk(OpConcat, w, hi, lo, nil, 0)
}

func (c *Ctx) Extract(a *Term, hi, lo uint8) *Term {
	if hi < lo || hi >= a.w {
		panic(fmt.Sprintf("Extract %d %d of width %d", hi, lo, a.w))
	}
	w := hi - lo + 1
	if w == a.w {
		return a
	}
	if mb, ok := c.maxBits[a]; ok && hi >= mb {
		// bits at and above mb are known to be zero on this path
		if lo >= mb {
			return c.Const(w, 0)
		}
		return c.Zext(c.Extract(a, mb-1, lo), w)
	}
	switch a.op {
	case OpConst:
		return c.Const(w, a.val>>lo)
	case OpExtract:
		al := uint8(a.val)
		return c.Extract(a.a, hi+al, lo+al)
	case OpConcat:
		lw := a.b.w
		if hi < lw {
			return c.Extract(a.b, hi, lo)
		}
		if lo >= lw {
			return c.Extract(a.a, hi-lw, lo-lw)
		}
		return c.Concat(c.Extract(a.a, hi-lw, 0), c.Extract(a.b, lw-1, lo))
	case OpZext:
		iw := a.a.w
		if hi < iw {
			return c.Extract(a.a, hi, lo)
		}
		if lo >= iw {
			return c.Const(w, 0)
		}
		return c.Zext(c.Extract(a.a, iw-1, lo), w)
	case OpSext:
		iw := a.a.w
		if hi < iw {
			return c.Extract(a.a, hi, lo)
		}
		if lo < iw {
			return c.Sext(c.Extract(a.a, iw-1, lo), w)
		}
	case OpBvAnd, OpBvOr, OpBvXor:
		x, y := c.Extract(a.a, hi, lo), c.Extract(a.b, hi, lo)
		switch a.op {
		case OpBvAnd:
			return c.BvAnd(x, y)
		case OpBvOr:
			return c.BvOr(x, y)
		default:
			return c.BvXor(x, y)
		}
	case OpBvNot:
		return c.BvNot(c.Extract(a.a, hi, lo))
	case OpIte:
		if a.b.IsConst() || a.c.IsConst() {
			return c.Ite(a.a, c.Extract(a.b, hi, lo), c.Extract(a.c, hi, lo))
		}
	case OpAdd, OpSub, OpMul:
		// low bits of arithmetic depend only on low bits of operands
		if lo == 0 && (a.a.op == OpZext || a.a.op == OpSext || a.b.op == OpZext || a.b.op == OpSext || a.a.IsConst() || a.b.IsConst()) {
			x, y := c.Extract(a.a, hi, 0), c.Extract(a.b, hi, 0)
			switch a.op {
			case OpAdd:
				return c.Add(x, y)
			case OpSub:
				return c.Sub(x, y)
			default:
				return c.Mul(x, y)
			}
		}
	}
	return c.mk(OpExtract, w, a, nil, nil, uint64(hi)<<8|uint64(lo))
}

func (c *Ctx) Zext(a *Term, w uint8) *Term {
	if w == a.w {
		return a
	}
	if w < a.w {
		panic("Zext narrowing")
	}
	if a.IsConst() {
		return c.Const(w, a.val)
	}
	if a.op == OpZext {
		return c.Zext(a.a, w)
	}
	if a.op == OpExtract && uint8(a.val) == 0 && a.a.w == w {
		if mb, ok := c.maxBits[a.a]; ok && mb <= a.w {
			return a.a
		}
	}
	return c.mk(OpZext, w, a, nil, nil, 0)
}
func (c *Ctx) Sext(a *Term, w uint8) *Term {
	if w == a.w {
		return a
	}
	if w < a.w {
		panic("Sext narrowing")
	}
	if a.IsConst() {
		return c.Const(w, uint64(signExt(a.val, a.w)))
	}
	if a.op == OpZext && a.a.w < a.w {
		return c.Zext(a.a, w)
	}
	if a.op == OpSext {
		return c.Sext(a.a, w)
	}
	return c.mk(OpSext, w, a, nil, nil, 0)
}

// Resize converts between integer widths (Go conversion semantics).
func (c *Ctx) Resize(a *Term, w uint8, signed bool) *Term {
	switch {
	case w == a.w:
		return a
	case w < a.w:
		return c.Extract(a, w-1, 0)
	case signed:
		return c.Sext(a, w)
	default:
		return c.Zext(a, w)
	}
}

// ---------- floats ----------

func f32(v uint64) float32 { return math.Float32frombits(uint32(v)) }
func f64(v uint64) float64 { return math.Float64frombits(v) }
func fval(t *Term) float64 {
	if t.w == 32 {
		return float64(f32(t.val))
	}
	return f64(t.val)
}

func (c *Ctx) FCmp(op Op, a, b *Term) *Term {
	if a.IsConst() && b.IsConst() {
		x, y := fval(a), fval(b)
		switch op {
		case OpFLt:
			return c.Bool(x < y)
		case OpFLe:
			return c.Bool(x <= y)
		case OpFEq:
			return c.Bool(x == y)
		}
	}
	return c.mk(op, 0, a, b, nil, 0)
}
func (c *Ctx) FIsNaN(a *Term) *Term {
	if a.IsConst() {
		return c.Bool(math.IsNaN(fval(a)))
	}
	return c.mk(OpFIsNaN, 0, a, nil, nil, 0)
}

// ---------- printing ----------

var opNames = map[Op]string{
	OpNot: "not", OpAnd: "and", OpOr: "or", OpIte: "ite", OpEq: "=",
	OpUlt: "bvult", OpUle: "bvule", OpSlt: "bvslt", OpSle: "bvsle",
	OpBvNot: "bvnot", OpBvNeg: "bvneg", OpBvAnd: "bvand", OpBvOr: "bvor", OpBvXor: "bvxor",
	OpAdd: "bvadd", OpSub: "bvsub", OpMul: "bvmul", OpUDiv: "bvudiv", OpURem: "bvurem",
	OpSDiv: "bvsdiv", OpSRem: "bvsrem", OpShl: "bvshl", OpLshr: "bvlshr", OpAshr: "bvashr",
	OpConcat: "concat",
}

func sortOf(w uint8) string {
	if w == 0 {
		return "Bool"
	}
	return fmt.Sprintf("(_ BitVec %d)", w)
}

func fpSort(w uint8) string {
	if w == 32 {
		return "8 24"
	}
	return "11 53"
}

func constSMT(t *Term) string {
	if t.w == 0 {
		if t.val == 1 {
			return "true"
		}
		return "false"
	}
	if t.w%4 == 0 {
		return fmt.Sprintf("#x%0*x", int(t.w/4), t.val)
	}
	return fmt.Sprintf("#b%0*b", int(t.w), t.val)
}

// smtExpr renders one node, referring to children through ref().
func smtNode(t *Term, ref func(*Term) string) string {
	switch t.op {
	case OpConst:
		return constSMT(t)
	case OpVar:
		return t.name
	case OpExtract:
		return fmt.Sprintf("((_ extract %d %d) %s)", t.val>>8, t.val&0xff, ref(t.a))
	case OpZext:
		return fmt.Sprintf("((_ zero_extend %d) %s)", t.w-t.a.w, ref(t.a))
	case OpSext:
		return fmt.Sprintf("((_ sign_extend %d) %s)", t.w-t.a.w, ref(t.a))
	case OpFLt, OpFLe, OpFEq:
		n := map[Op]string{OpFLt: "fp.lt", OpFLe: "fp.leq", OpFEq: "fp.eq"}[t.op]
		s := fpSort(t.a.w)
		return fmt.Sprintf("(%s ((_ to_fp %s) %s) ((_ to_fp %s) %s))", n, s, ref(t.a), s, ref(t.b))
	case OpFIsNaN:
		return fmt.Sprintf("(fp.isNaN ((_ to_fp %s) %s))", fpSort(t.a.w), ref(t.a))
	case OpFToSInt:
		return fmt.Sprintf("((_ fp.to_sbv %d) RTZ ((_ to_fp %s) %s))", t.w, fpSort(t.a.w), ref(t.a))
	case OpFToUInt:
		return fmt.Sprintf("((_ fp.to_ubv %d) RTZ ((_ to_fp %s) %s))", t.w, fpSort(t.a.w), ref(t.a))
	case OpSIntToF:
		return fmt.Sprintf("(fp.to_ieee_bv ((_ to_fp %s) RNE %s))", fpSort(t.w), ref(t.a))
	case OpUIntToF:
		return fmt.Sprintf("(fp.to_ieee_bv ((_ to_fp_unsigned %s) RNE %s))", fpSort(t.w), ref(t.a))
	case OpFToF:
		return fmt.Sprintf("(fp.to_ieee_bv ((_ to_fp %s) RNE ((_ to_fp %s) %s)))", fpSort(t.w), fpSort(t.a.w), ref(t.a))
	case OpFNeg:
		return fmt.Sprintf("(fp.to_ieee_bv (fp.neg ((_ to_fp %s) %s)))", fpSort(t.w), ref(t.a))
	case OpFArith:
		n := map[uint64]string{'+': "fp.add", '-': "fp.sub", '*': "fp.mul", '/': "fp.div"}[t.val]
		s := fpSort(t.w)
		return fmt.Sprintf("(fp.to_ieee_bv (%s RNE ((_ to_fp %s) %s) ((_ to_fp %s) %s)))", n, s, ref(t.a), s, ref(t.b))
	}
	name := opNames[t.op]
	var sb strings.Builder
	sb.WriteByte('(')
	sb.WriteString(name)
	for _, x := range []*Term{t.a, t.b, t.c} {
		if x != nil {
			sb.WriteByte(' ')
			sb.WriteString(ref(x))
		}
	}
	sb.WriteByte(')')
	return sb.String()
}

const inlineSize = 6

// Script builds a standalone SMT-LIB2 script body (declarations, definitions)
// for the given roots and returns the strings naming each root.
func Script(roots []*Term) (decls string, names []string) {
	var sb strings.Builder
	done := map[*Term]string{}
	var ref func(t *Term) string
	ref = func(t *Term) string {
		if s, ok := done[t]; ok {
			return s
		}
		var s string
		switch {
		case t.op == OpConst:
			s = constSMT(t)
		case t.op == OpVar:
			fmt.Fprintf(&sb, "(declare-const %s %s)\n", t.name, sortOf(t.w))
			s = t.name
		default:
			e := smtNode(t, ref)
			if t.size <= inlineSize {
				s = e
			} else {
				s = fmt.Sprintf("t!%d", t.id)
				fmt.Fprintf(&sb, "(define-fun %s () %s %s)\n", s, sortOf(t.w), e)
			}
		}
		done[t] = s
		return s
	}
	for _, r := range roots {
		names = append(names, ref(r))
	}
	return sb.String(), names
}

func (t *Term) String() string {
	_, n := Script([]*Term{t})
	return n[0]
}

// usesZ3Only reports whether a term uses fp.to_ieee_bv (z3 extension).
func usesZ3Only(t *Term, seen map[*Term]bool) bool {
	if t == nil || seen[t] {
		return false
	}
	seen[t] = true
	switch t.op {
	case OpSIntToF, OpUIntToF, OpFToF, OpFArith, OpFNeg:
		return true
	}
	return usesZ3Only(t.a, seen) || usesZ3Only(t.b, seen) || usesZ3Only(t.c, seen)
}

// Eval evaluates a term under an assignment of variables (for debugging and
// concrete replays inside the engine).
func Eval(t *Term, env map[string]uint64, memo map[*Term]uint64) uint64 {
	if v, ok := memo[t]; ok {
		return v
	}
	var r uint64
	ev := func(x *Term) uint64 { return Eval(x, env, memo) }
	b2u := func(b bool) uint64 {
		if b {
			return 1
		}
		return 0
	}
	switch t.op {
	case OpConst:
		r = t.val
	case OpVar:
		r = env[t.name]
	case OpNot:
		r = 1 - ev(t.a)
	case OpAnd:
		r = ev(t.a) & ev(t.b)
	case OpOr:
		r = ev(t.a) | ev(t.b)
	case OpIte:
		if ev(t.a) == 1 {
			r = ev(t.b)
		} else {
			r = ev(t.c)
		}
	case OpEq:
		r = b2u(ev(t.a) == ev(t.b))
	case OpUlt:
		r = b2u(ev(t.a) < ev(t.b))
	case OpUle:
		r = b2u(ev(t.a) <= ev(t.b))
	case OpSlt:
		r = b2u(signExt(ev(t.a), t.a.w) < signExt(ev(t.b), t.a.w))
	case OpSle:
		r = b2u(signExt(ev(t.a), t.a.w) <= signExt(ev(t.b), t.a.w))
	case OpBvNot:
		r = ^ev(t.a)
	case OpBvNeg:
		r = -ev(t.a)
	case OpBvAnd:
		r = ev(t.a) & ev(t.b)
	case OpBvOr:
		r = ev(t.a) | ev(t.b)
	case OpBvXor:
		r = ev(t.a) ^ ev(t.b)
	case OpAdd:
		r = ev(t.a) + ev(t.b)
	case OpSub:
		r = ev(t.a) - ev(t.b)
	case OpMul:
		r = ev(t.a) * ev(t.b)
	case OpUDiv:
		if d := ev(t.b); d == 0 {
			r = mask(t.w)
		} else {
			r = ev(t.a) / d
		}
	case OpURem:
		if d := ev(t.b); d == 0 {
			r = ev(t.a)
		} else {
			r = ev(t.a) % d
		}
	case OpSDiv:
		x, y := signExt(ev(t.a), t.w), signExt(ev(t.b), t.w)
		if y == 0 {
			if x < 0 {
				r = 1
			} else {
				r = mask(t.w)
			}
		} else if y == -1 {
			r = uint64(-x)
		} else {
			r = uint64(x / y)
		}
	case OpSRem:
		x, y := signExt(ev(t.a), t.w), signExt(ev(t.b), t.w)
		if y == 0 {
			r = uint64(x)
		} else if y == -1 {
			r = 0
		} else {
			r = uint64(x % y)
		}
	case OpShl:
		if k := ev(t.b); k >= uint64(t.w) {
			r = 0
		} else {
			r = ev(t.a) << k
		}
	case OpLshr:
		if k := ev(t.b); k >= uint64(t.w) {
			r = 0
		} else {
			r = ev(t.a) >> k
		}
	case OpAshr:
		k := ev(t.b)
		if k >= uint64(t.w) {
			k = uint64(t.w) - 1
		}
		r = uint64(signExt(ev(t.a), t.w) >> k)
	case OpConcat:
		r = ev(t.a)<<t.b.w | ev(t.b)
	case OpExtract:
		r = ev(t.a) >> (t.val & 0xff)
	case OpZext:
		r = ev(t.a)
	case OpSext:
		r = uint64(signExt(ev(t.a), t.a.w))
	case OpFLt, OpFLe, OpFEq:
		var x, y float64
		if t.a.w == 32 {
			x, y = float64(f32(ev(t.a))), float64(f32(ev(t.b)))
		} else {
			x, y = f64(ev(t.a)), f64(ev(t.b))
		}
		switch t.op {
		case OpFLt:
			r = b2u(x < y)
		case OpFLe:
			r = b2u(x <= y)
		default:
			r = b2u(x == y)
		}
	case OpFIsNaN:
		if t.a.w == 32 {
			r = b2u(math.IsNaN(float64(f32(ev(t.a)))))
		} else {
			r = b2u(math.IsNaN(f64(ev(t.a))))
		}
	case OpFToF:
		if t.w == 64 {
			r = math.Float64bits(float64(f32(ev(t.a))))
		} else {
			r = uint64(math.Float32bits(float32(f64(ev(t.a)))))
		}
	case OpFToSInt, OpFToUInt:
		var f float64
		if t.a.w == 32 {
			f = float64(f32(ev(t.a)))
		} else {
			f = f64(ev(t.a))
		}
		if t.op == OpFToSInt {
			r = uint64(int64(f))
		} else {
			r = uint64(f)
		}
	case OpSIntToF, OpUIntToF:
		var f float64
		if t.op == OpSIntToF {
			f = float64(signExt(ev(t.a), t.a.w))
		} else {
			f = float64(ev(t.a))
		}
		if t.w == 32 {
			if t.op == OpSIntToF {
				r = uint64(math.Float32bits(float32(signExt(ev(t.a), t.a.w))))
			} else {
				r = uint64(math.Float32bits(float32(ev(t.a))))
			}
		} else {
			r = math.Float64bits(f)
		}
	case OpFNeg:
		r = ev(t.a) ^ (uint64(1) << (t.w - 1))
	case OpFArith:
		if t.w == 32 {
			x, y := f32(ev(t.a)), f32(ev(t.b))
			var z float32
			switch t.val {
			case '+':
				z = x + y
			case '-':
				z = x - y
			case '*':
				z = x * y
			default:
				z = x / y
			}
			r = uint64(math.Float32bits(z))
		} else {
			x, y := f64(ev(t.a)), f64(ev(t.b))
			var z float64
			switch t.val {
			case '+':
				z = x + y
			case '-':
				z = x - y
			case '*':
				z = x * y
			default:
				z = x / y
			}
			r = math.Float64bits(z)
		}
	default:
		panic(fmt.Sprintf("Eval: unsupported op %d", t.op))
	}
	if t.w == 0 {
		r &= 1
	} else {
		r &= mask(t.w)
	}
	memo[t] = r
	return r
}

// Debug renders the top levels of a term for diagnostics.
func (t *Term) Debug(depth int) string {
	if t == nil {
		return ""
	}
	if t.op == OpConst {
		return constSMT(t)
	}
	if t.op == OpVar {
		return t.name
	}
	if depth == 0 {
		return fmt.Sprintf("<%d:w%d:sz%d>", t.op, t.w, t.size)
	}
	name := opNames[t.op]
	if name == "" {
		name = fmt.Sprintf("op%d", t.op)
	}
	if t.op == OpExtract {
		name = fmt.Sprintf("extract[%d:%d]", t.val>>8, t.val&0xff)
	}
	if t.op == OpZext {
		name = fmt.Sprintf("zext%d", t.w)
	}
	s := "(" + name
	for _, x := range []*Term{t.a, t.b, t.c} {
		if x != nil {
			s += " " + x.Debug(depth-1)
		}
	}
	return s + ")"
}

package main

// Minimal model of reflect.Type: identity, Kind, Elem, Size, Len, String,
// Comparable, NumField. A reflect.Type value is an interface holding a pointer
// to a reserved object id that stands for one go/types type. No reflect.Value.

import (
	"go/types"
	"sync"

	"golang.org/x/tools/go/ssa"
)

const rtypeBase = 1 << 30

var (
	rtypeMu    sync.Mutex
	rtypeByKey = map[string]int{}
	rtypeTypes []types.Type
	rtypeDummy = &Object{conc: []byte{}, ro: true, tag: "rtype"}
)

func rtypeID(t types.Type) int {
	key := types.TypeString(t, nil)
	rtypeMu.Lock()
	defer rtypeMu.Unlock()
	if id, ok := rtypeByKey[key]; ok {
		return id
	}
	id := rtypeBase + len(rtypeTypes)
	rtypeTypes = append(rtypeTypes, t)
	rtypeByKey[key] = id
	return id
}

func rtypeOf(id int) types.Type {
	rtypeMu.Lock()
	defer rtypeMu.Unlock()
	return rtypeTypes[id-rtypeBase]
}

func (in *Interp) rtypeIface(t types.Type) *IfaceV {
	rp := in.prog.ImportedPackage("reflect")
	if rp == nil {
		in.fail("reflect package not loaded")
	}
	named := rp.Type("rtype").Type()
	return &IfaceV{T: types.NewPointer(named), V: Ptr{rtypeID(t), 0}}
}

func (in *Interp) rtypeArg(v Value) types.Type {
	p, ok := v.(Ptr)
	if !ok || p.ID < rtypeBase {
		in.fail("reflect: receiver is not a modelled reflect.Type")
	}
	return rtypeOf(p.ID)
}

func reflectKind(t types.Type) uint64 {
	switch u := t.Underlying().(type) {
	case *types.Basic:
		switch u.Kind() {
		case types.Bool:
			return 1
		case types.Int:
			return 2
		case types.Int8:
			return 3
		case types.Int16:
			return 4
		case types.Int32:
			return 5
		case types.Int64:
			return 6
		case types.Uint:
			return 7
		case types.Uint8:
			return 8
		case types.Uint16:
			return 9
		case types.Uint32:
			return 10
		case types.Uint64:
			return 11
		case types.Uintptr:
			return 12
		case types.Float32:
			return 13
		case types.Float64:
			return 14
		case types.Complex64:
			return 15
		case types.Complex128:
			return 16
		case types.String:
			return 24
		case types.UnsafePointer:
			return 26
		}
	case *types.Array:
		return 17
	case *types.Chan:
		return 18
	case *types.Signature:
		return 19
	case *types.Interface:
		return 20
	case *types.Map:
		return 21
	case *types.Pointer:
		return 22
	case *types.Slice:
		return 23
	case *types.Struct:
		return 25
	}
	return 0
}

func init() {
	reg := func(name string, f libFn) { libIntrinsics[name] = f }
	reg("reflect.TypeOf", func(in *Interp, fn *ssa.Function, args []Value) Value {
		iv := args[0].(*IfaceV)
		if iv == nil || iv.T == nil {
			return &IfaceV{}
		}
		return in.rtypeIface(iv.T)
	})
	sortSlice := func(in *Interp, fn *ssa.Function, args []Value) Value {
		iv := args[0].(*IfaceV)
		if iv == nil || iv.T == nil {
			in.gopanic("sort.Slice: nil slice")
		}
		st, ok := iv.T.Underlying().(*types.Slice)
		if !ok {
			in.gopanic("sort.Slice: not a slice")
		}
		sl := iv.V.(SliceV)
		es := sizeof(st.Elem())
		less := args[1]
		c := in.ctx
		// insertion sort (stable); for a strict total order the result is the unique sorted permutation
		tmp := in.newObject(es, st.Elem(), "sort.tmp")
		at := func(i int) Ptr { return Ptr{sl.P.ID, sl.P.Off + i*es} }
		for i := 1; i < sl.Len; i++ {
			for j := i; j > 0; j-- {
				r := in.callValue(less, []Value{c.Const(64, uint64(j)), c.Const(64, uint64(j-1))}, nil).(*Term)
				if !in.branch(r) {
					break
				}
				in.memmove(tmp, at(j), es)
				in.memmove(at(j), at(j-1), es)
				in.memmove(at(j-1), tmp, es)
			}
		}
		return nil
	}
	reg("sort.Slice", sortSlice)
	reg("sort.SliceStable", sortSlice)
	reg("reflect.rtype.Kind", func(in *Interp, fn *ssa.Function, args []Value) Value {
		return in.ctx.Const(64, reflectKind(in.rtypeArg(args[0])))
	})
	reg("reflect.rtype.Elem", func(in *Interp, fn *ssa.Function, args []Value) Value {
		switch u := in.rtypeArg(args[0]).Underlying().(type) {
		case *types.Pointer:
			return in.rtypeIface(u.Elem())
		case *types.Slice:
			return in.rtypeIface(u.Elem())
		case *types.Array:
			return in.rtypeIface(u.Elem())
		case *types.Map:
			return in.rtypeIface(u.Elem())
		case *types.Chan:
			return in.rtypeIface(u.Elem())
		}
		in.gopanic("reflect: Elem of invalid type")
		return nil
	})
	reg("reflect.rtype.Key", func(in *Interp, fn *ssa.Function, args []Value) Value {
		if u, ok := in.rtypeArg(args[0]).Underlying().(*types.Map); ok {
			return in.rtypeIface(u.Key())
		}
		in.gopanic("reflect: Key of non-map type")
		return nil
	})
	reg("reflect.rtype.Size", func(in *Interp, fn *ssa.Function, args []Value) Value {
		return in.ctx.Const(64, uint64(sizeof(in.rtypeArg(args[0]))))
	})
	reg("reflect.rtype.Align", func(in *Interp, fn *ssa.Function, args []Value) Value {
		return in.ctx.Const(64, uint64(sizes.Alignof(in.rtypeArg(args[0]))))
	})
	reg("reflect.rtype.Len", func(in *Interp, fn *ssa.Function, args []Value) Value {
		if u, ok := in.rtypeArg(args[0]).Underlying().(*types.Array); ok {
			return in.ctx.Const(64, uint64(u.Len()))
		}
		in.gopanic("reflect: Len of non-array type")
		return nil
	})
	reg("reflect.rtype.Bits", func(in *Interp, fn *ssa.Function, args []Value) Value {
		return in.ctx.Const(64, uint64(8*sizeof(in.rtypeArg(args[0]))))
	})
	reg("reflect.rtype.NumField", func(in *Interp, fn *ssa.Function, args []Value) Value {
		if u, ok := in.rtypeArg(args[0]).Underlying().(*types.Struct); ok {
			return in.ctx.Const(64, uint64(u.NumFields()))
		}
		in.gopanic("reflect: NumField of non-struct type")
		return nil
	})
	reg("reflect.rtype.String", func(in *Interp, fn *ssa.Function, args []Value) Value {
		return in.constString(types.TypeString(in.rtypeArg(args[0]), func(p *types.Package) string { return p.Name() }))
	})
	reg("reflect.rtype.Name", func(in *Interp, fn *ssa.Function, args []Value) Value {
		switch t := in.rtypeArg(args[0]).(type) {
		case *types.Named:
			return in.constString(t.Obj().Name())
		case *types.Basic:
			return in.constString(t.Name())
		}
		return StrV{}
	})
	reg("reflect.rtype.PkgPath", func(in *Interp, fn *ssa.Function, args []Value) Value {
		if t, ok := in.rtypeArg(args[0]).(*types.Named); ok && t.Obj().Pkg() != nil {
			return in.constString(t.Obj().Pkg().Path())
		}
		return StrV{}
	})
	reg("reflect.rtype.Comparable", func(in *Interp, fn *ssa.Function, args []Value) Value {
		return in.ctx.Bool(types.Comparable(in.rtypeArg(args[0])))
	})
}

// deepEqual models reflect.DeepEqual on the engine's values (no maps, no cycles).
func (in *Interp) deepEqual(t types.Type, a, b Value, depth int) *Term {
	c := in.ctx
	if depth > 40 {
		in.fail("reflect.DeepEqual: structure too deep")
	}
	switch u := t.Underlying().(type) {
	case *types.Basic:
		if u.Info()&types.IsString != 0 {
			return in.strEq(a.(StrV), b.(StrV))
		}
		if u.Kind() == types.UnsafePointer {
			return c.Bool(a.(Ptr) == b.(Ptr))
		}
		return in.equal(t, a, b)
	case *types.Pointer:
		pa, pb := a.(Ptr), b.(Ptr)
		if pa.ID == 0 || pb.ID == 0 {
			return c.Bool(pa.ID == 0 && pb.ID == 0)
		}
		if pa == pb {
			return c.Bool(true)
		}
		return in.deepEqual(u.Elem(), in.load(pa, u.Elem()), in.load(pb, u.Elem()), depth+1)
	case *types.Struct:
		sa, sb := a.(*StructV), b.(*StructV)
		r := c.Bool(true)
		for i := range sa.F {
			r = c.And(r, in.deepEqual(u.Field(i).Type(), sa.F[i], sb.F[i], depth+1))
		}
		return r
	case *types.Array:
		aa, ab := a.(*ArrayV), b.(*ArrayV)
		r := c.Bool(true)
		for i := range aa.E {
			r = c.And(r, in.deepEqual(u.Elem(), aa.E[i], ab.E[i], depth+1))
		}
		return r
	case *types.Slice:
		sa, sb := a.(SliceV), b.(SliceV)
		if (sa.P.ID == 0) != (sb.P.ID == 0) || sa.Len != sb.Len {
			return c.Bool(false)
		}
		es := sizeof(u.Elem())
		r := c.Bool(true)
		for i := 0; i < sa.Len; i++ {
			x := in.load(Ptr{sa.P.ID, sa.P.Off + i*es}, u.Elem())
			y := in.load(Ptr{sb.P.ID, sb.P.Off + i*es}, u.Elem())
			r = c.And(r, in.deepEqual(u.Elem(), x, y, depth+1))
		}
		return r
	case *types.Interface:
		ia, ib := a.(*IfaceV), b.(*IfaceV)
		an := ia == nil || ia.T == nil
		bn := ib == nil || ib.T == nil
		if an || bn {
			return c.Bool(an && bn)
		}
		if !types.Identical(ia.T, ib.T) {
			return c.Bool(false)
		}
		return in.deepEqual(ia.T, ia.V, ib.V, depth+1)
	case *types.Signature:
		fa, fb := a.(*FuncV), b.(*FuncV)
		an := fa == nil || (fa.Fn == nil && fa.B == nil && fa.N == nil)
		bn := fb == nil || (fb.Fn == nil && fb.B == nil && fb.N == nil)
		return c.Bool(an && bn)
	}
	in.fail("reflect.DeepEqual on %s is not modelled", t)
	return nil
}

func init() {
	libIntrinsics["reflect.DeepEqual"] = func(in *Interp, fn *ssa.Function, args []Value) Value {
		ia, ib := args[0].(*IfaceV), args[1].(*IfaceV)
		an := ia == nil || ia.T == nil
		bn := ib == nil || ib.T == nil
		if an || bn {
			return in.ctx.Bool(an && bn)
		}
		if !types.Identical(ia.T, ib.T) {
			return in.ctx.Bool(false)
		}
		return in.deepEqual(ia.T, ia.V, ib.V, 0)
	}
}

package main

import (
	"fmt"
	"go/types"
	"sort"
	"strings"

	"golang.org/x/tools/go/ssa"
)

// Value is one of:
//
//	*Term            bool / integer / float (IEEE bits) / uintptr
//	Ptr              pointer or unsafe.Pointer
//	SliceV, StrV     slice and string headers with concrete len/cap
//	*IfaceV          interface value (nil interface: T == nil)
//	*StructV, *ArrayV  aggregate register values
//	*FuncV           function value / closure (nil func: Fn == nil && B == nil)
//	MapV, ChanV      handles
//	TupleV           multiple results
type Value interface{}

type Ptr struct {
	ID  int
	Off int
}

type SliceV struct {
	P        Ptr
	Len, Cap int
}

type StrV struct {
	P   Ptr
	Len int
}

type IfaceV struct {
	T types.Type
	V Value
}

type StructV struct{ F []Value }
type ArrayV struct{ E []Value }

type FuncV struct {
	Fn   *ssa.Function
	Bind []Value
	B    *ssa.Builtin
	N    func(in *Interp, args []Value) Value // closure implemented by a library model
}

type MapV struct{ H int }  // 0 = nil map
type ChanV struct{ H int } // 0 = nil chan
type TupleV []Value

type Poison struct{ Why string }

// ---------- heap ----------

type wideCell struct {
	t *Term
	n int
}

type Object struct {
	conc     []byte
	sym      map[int]*Term
	wide     map[int]wideCell // store-to-load forwarding of whole symbolic words
	typ      types.Type
	ro       bool
	released bool
	tag      string
}

func (o *Object) clone() *Object {
	n := &Object{conc: append([]byte(nil), o.conc...), typ: o.typ, ro: o.ro, released: o.released, tag: o.tag}
	if len(o.sym) > 0 {
		n.sym = make(map[int]*Term, len(o.sym))
		for k, v := range o.sym {
			n.sym[k] = v
		}
	}
	if len(o.wide) > 0 {
		n.wide = make(map[int]wideCell, len(o.wide))
		for k, v := range o.wide {
			n.wide[k] = v
		}
	}
	return n
}

type MapObj struct {
	keys   []string // canonical key strings in insertion order
	kvals  map[string]Value
	vals   map[string]Value
	kt     types.Type
	vt     types.Type
	hasSym bool // some stored key has symbolic content
}

func (m *MapObj) clone() *MapObj {
	n := &MapObj{keys: append([]string(nil), m.keys...), kvals: map[string]Value{}, vals: map[string]Value{}, kt: m.kt, vt: m.vt, hasSym: m.hasSym}
	for k, v := range m.kvals {
		n.kvals[k] = v
	}
	for k, v := range m.vals {
		n.vals[k] = v
	}
	return n
}

// Base is the frozen state produced by package initialisation, shared by all
// paths (objects and maps are cloned on first write).
type Base struct {
	objs       map[int]*Object
	maps       map[int]*MapObj
	boxes      []Value
	globals    map[*ssa.Global]int
	strs       map[string]int
	nextObj    int
	nextMap    int
	inited     map[*ssa.Package]bool
	poisoned   map[int]string
	onceDone   map[Ptr]bool
	atomicVals map[Ptr]Value
	syncMaps   map[Ptr]*MapObj
}

const boxTag = uint64(0x4000000000000000)
const mapTag = uint64(0x2000000000000000)
const chanTag = uint64(0x1000000000000000)

func ptrAddr(p Ptr) uint64 {
	if p.ID == 0 {
		return uint64(p.Off) // nil (possibly with offset)
	}
	return uint64(p.ID)<<32 + uint64(int64(p.Off))
}

func addrPtr(a uint64) Ptr {
	if a>>32 == 0 {
		return Ptr{0, int(a)}
	}
	return Ptr{int(a >> 32), int(a & 0xffffffff)}
}

// ---------- type layout ----------

var sizes = types.SizesFor("gc", "amd64")

func sizeof(t types.Type) int { return int(sizes.Sizeof(t)) }

func fieldOffsets(st *types.Struct) []int64 {
	n := st.NumFields()
	fs := make([]*types.Var, n)
	for i := 0; i < n; i++ {
		fs[i] = st.Field(i)
	}
	return sizes.Offsetsof(fs)
}

type scalarKind struct {
	w      uint8
	signed bool
	float  bool
	isBool bool
}

func basicInfo(b *types.Basic) (scalarKind, bool) {
	switch b.Kind() {
	case types.Bool, types.UntypedBool:
		return scalarKind{w: 0, isBool: true}, true
	case types.Int8:
		return scalarKind{w: 8, signed: true}, true
	case types.Int16:
		return scalarKind{w: 16, signed: true}, true
	case types.Int32, types.UntypedRune:
		return scalarKind{w: 32, signed: true}, true
	case types.Int64, types.Int, types.UntypedInt:
		return scalarKind{w: 64, signed: true}, true
	case types.Uint8:
		return scalarKind{w: 8}, true
	case types.Uint16:
		return scalarKind{w: 16}, true
	case types.Uint32:
		return scalarKind{w: 32}, true
	case types.Uint64, types.Uint, types.Uintptr:
		return scalarKind{w: 64}, true
	case types.Float32:
		return scalarKind{w: 32, float: true}, true
	case types.Float64, types.UntypedFloat:
		return scalarKind{w: 64, float: true}, true
	}
	return scalarKind{}, false
}

func scalarOf(t types.Type) (scalarKind, bool) {
	if b, ok := t.Underlying().(*types.Basic); ok {
		return basicInfo(b)
	}
	return scalarKind{}, false
}

func isString(t types.Type) bool {
	b, ok := t.Underlying().(*types.Basic)
	return ok && b.Info()&types.IsString != 0
}

func isUnsafePointer(t types.Type) bool {
	b, ok := t.Underlying().(*types.Basic)
	return ok && b.Kind() == types.UnsafePointer
}

// ---------- formatting (debug, map keys) ----------

func fmtValue(v Value) string {
	switch x := v.(type) {
	case nil:
		return "<nil>"
	case *Term:
		if x.IsConst() {
			return fmt.Sprintf("%d:%d", x.w, x.val)
		}
		return "sym(" + x.String() + ")"
	case Ptr:
		return fmt.Sprintf("&%d+%d", x.ID, x.Off)
	case SliceV:
		return fmt.Sprintf("slice(&%d+%d,%d,%d)", x.P.ID, x.P.Off, x.Len, x.Cap)
	case StrV:
		return fmt.Sprintf("str(&%d+%d,%d)", x.P.ID, x.P.Off, x.Len)
	case *IfaceV:
		if x == nil || x.T == nil {
			return "iface(nil)"
		}
		return "iface(" + x.T.String() + "," + fmtValue(x.V) + ")"
	case *StructV:
		var sb strings.Builder
		sb.WriteString("{")
		for i, f := range x.F {
			if i > 0 {
				sb.WriteString(",")
			}
			sb.WriteString(fmtValue(f))
		}
		sb.WriteString("}")
		return sb.String()
	case *ArrayV:
		var sb strings.Builder
		sb.WriteString("[")
		for i, f := range x.E {
			if i > 0 {
				sb.WriteString(",")
			}
			sb.WriteString(fmtValue(f))
		}
		sb.WriteString("]")
		return sb.String()
	case *FuncV:
		if x == nil || (x.Fn == nil && x.B == nil && x.N == nil) {
			return "func(nil)"
		}
		if x.Fn != nil {
			return "func(" + x.Fn.String() + ")"
		}
		if x.N != nil {
			return "func(model)"
		}
		return "builtin(" + x.B.Name() + ")"
	case MapV:
		return fmt.Sprintf("map#%d", x.H)
	case ChanV:
		return fmt.Sprintf("chan#%d", x.H)
	case TupleV:
		var sb strings.Builder
		sb.WriteString("(")
		for i, f := range x {
			if i > 0 {
				sb.WriteString(",")
			}
			sb.WriteString(fmtValue(f))
		}
		sb.WriteString(")")
		return sb.String()
	case Poison:
		return "poison(" + x.Why + ")"
	}
	return fmt.Sprintf("%T", v)
}

func sortedKeys(m map[int]*Term) []int {
	k := make([]int, 0, len(m))
	for i := range m {
		k = append(k, i)
	}
	sort.Ints(k)
	return k
}

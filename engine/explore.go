package main

import (
	"fmt"
	"go/types"
	"os"
	"runtime/debug"
	"sort"
	"sync"
	"time"

	"golang.org/x/tools/go/ssa"
)

type Violation struct {
	Kind       string      `json:"kind"` // assert | panic
	Msg        string      `json:"msg"`
	Where      string      `json:"where"`
	Nondets    []NondetRec `json:"nondets"`
	Decs       string      `json:"decisions"`
	Reproduced bool        `json:"reproduced_natively"`
	ReplayNote string      `json:"replay_note"`
	ReplayPath string      `json:"replay_path"`
}

type PathResult struct {
	Status          string // ok | abort | panic | error
	Covers          map[string]int
	Obligations     int
	Discharged      int
	ConcreteTrue    int
	Violations      []Violation
	Inconclusive    []string
	IfConv          int
	Forks           int
	Concretizations int
	UnknownKept     int
	Steps           int64
	Symbolic        bool
	PCSample        string
	Learned         int
}

type HarnessResult struct {
	Pkg             string         `json:"pkg"`
	Func            string         `json:"func"`
	Paths           int            `json:"paths"`
	PathsOK         int            `json:"paths_completed"`
	PathsAborted    int            `json:"paths_infeasible_or_assumed_away"`
	PathsPanic      int            `json:"paths_panic"`
	PathsSymbolic   int            `json:"paths_with_symbolic_decisions"`
	Obligations     int            `json:"obligations"`
	Discharged      int            `json:"discharged"`
	ConcreteTrue    int            `json:"assertions_concretely_true"`
	Violations      []Violation    `json:"violations"`
	Inconclusive    []string       `json:"inconclusive"`
	Covers          map[string]int `json:"covers"`
	IfConv          int            `json:"if_conversions"`
	Forks           int            `json:"forks"`
	Concretizations int            `json:"concretizations"`
	UnknownKept     int            `json:"unknown_feasibility_kept"`
	Steps           int64          `json:"ssa_steps"`
	WallS           float64        `json:"wall_s"`
	Funcs           []string       `json:"functions_executed"`
	PCSamples       []string       `json:"sample_path_conditions"`
	InitErrors      []string       `json:"init_errors,omitempty"`
	Validation      *ValidationRes `json:"translator_validation,omitempty"`
	Witness         string         `json:"reachability_witness"`
	Unwind          int            `json:"unwind"`
}

type Explorer struct {
	prog    *ssa.Program
	base    *Base
	fn      *ssa.Function
	cfg     *RunConfig
	replace map[string]*ssa.Function

	mu         sync.Mutex
	cond       *sync.Cond
	work       [][]Decision
	active     int
	res        *HarnessResult
	funcs      map[*ssa.Function]bool
	maxPath    int
	stop       bool
	maxSeconds int
	concParams map[string]concSpec
}

func newInterp(prog *ssa.Program, base *Base, cfg *RunConfig) *Interp {
	in := &Interp{
		prog: prog, base: base, cfg: cfg, ctx: NewCtx(),
		objs: map[int]*Object{}, maps: map[int]*MapObj{}, chans: map[int]*ChanObj{},
		strs: map[string]int{}, globals: map[*ssa.Global]int{}, poisoned: map[int]string{},
		inited: map[*ssa.Package]bool{}, ghost: map[string]Value{},
		onceDone: map[Ptr]bool{}, pools: map[Ptr][]Value{}, atomicVals: map[Ptr]Value{}, reflIters: map[int]*reflMapIter{}, syncMaps: map[Ptr]*MapObj{},
		maxSteps: cfg.MaxSteps, unwind: cfg.Unwind,
	}
	if base != nil {
		in.nextObj = base.nextObj
		in.nextMap = base.nextMap
		in.boxes = base.boxes[:len(base.boxes):len(base.boxes)]
		for k, v := range base.onceDone {
			in.onceDone[k] = v
		}
		for k, v := range base.atomicVals {
			in.atomicVals[k] = v
		}
		for k, v := range base.syncMaps {
			in.syncMaps[k] = v.clone()
		}
	}
	return in
}

// buildBase runs the initialisers of the given packages once, concretely.
func buildBase(prog *ssa.Program, pkgs []*ssa.Package, cfg *RunConfig) (*Base, []string) {
	in := newInterp(prog, nil, cfg)
	in.maxSteps = 2_000_000_000
	in.res = &PathResult{Covers: map[string]int{}}
	in.concrete = true
	for _, p := range pkgs {
		func() {
			defer func() {
				if r := recover(); r != nil {
					in.initErrors = append(in.initErrors, fmt.Sprintf("%s: %v", p.Pkg.Path(), r))
				}
			}()
			in.ensureInit(p)
		}()
	}
	b := &Base{objs: in.objs, maps: in.maps, boxes: in.boxes, globals: in.globals, strs: in.strs,
		nextObj: in.nextObj, nextMap: in.nextMap, inited: in.inited, poisoned: in.poisoned,
		onceDone: in.onceDone, atomicVals: in.atomicVals, syncMaps: in.syncMaps}
	return b, in.initErrors
}

func (e *Explorer) Run(workers int, maxPaths int) *HarnessResult {
	e.cond = sync.NewCond(&e.mu)
	e.res = &HarnessResult{Covers: map[string]int{}}
	e.funcs = map[*ssa.Function]bool{}
	e.work = [][]Decision{nil}
	e.maxPath = maxPaths
	t0 := time.Now()
	deadline := t0.Add(time.Duration(e.maxSeconds) * time.Second)
	doneCh := make(chan struct{})
	go func() {
		tk := time.NewTicker(15 * time.Second)
		defer tk.Stop()
		for {
			select {
			case <-doneCh:
				return
			case <-tk.C:
				e.mu.Lock()
				fmt.Fprintf(os.Stderr, "  [%s] %.0fs paths=%d pending=%d active=%d viol=%d inconcl=%d queries=%d\n", e.fn.Name(), time.Since(t0).Seconds(), e.res.Paths, len(e.work), e.active, len(e.res.Violations), len(e.res.Inconclusive), gStats.Queries)
				if e.maxSeconds > 0 && time.Now().After(deadline) && !e.stop {
					e.stop = true
					e.res.Inconclusive = append(e.res.Inconclusive, fmt.Sprintf("time budget %ds exhausted with %d paths pending", e.maxSeconds, len(e.work)+e.active))
				}
				e.mu.Unlock()
				e.cond.Broadcast()
			}
		}
	}()
	var wg sync.WaitGroup
	for w := 0; w < workers; w++ {
		wg.Add(1)
		go func() {
			defer wg.Done()
			sol := NewSolver(e.cfg.QueryMs)
			defer sol.Close()
			for {
				e.mu.Lock()
				for len(e.work) == 0 && e.active > 0 && !e.stop {
					e.cond.Wait()
				}
				if e.stop || (len(e.work) == 0 && e.active == 0) {
					e.mu.Unlock()
					e.cond.Broadcast()
					return
				}
				decs := e.work[len(e.work)-1]
				e.work = e.work[:len(e.work)-1]
				e.active++
				e.mu.Unlock()

				pr, newWork, funcs := e.runPath(sol, decs)

				e.mu.Lock()
				e.active--
				e.work = append(e.work, newWork...)
				e.merge(pr)
				for f := range funcs {
					e.funcs[f] = true
				}
				if e.res.Paths >= e.maxPath && !e.stop {
					e.stop = true
					e.res.Inconclusive = append(e.res.Inconclusive, fmt.Sprintf("path budget %d exhausted with %d pending", e.maxPath, len(e.work)))
				}
				e.mu.Unlock()
				e.cond.Broadcast()
			}
		}()
	}
	wg.Wait()
	close(doneCh)
	e.res.WallS = time.Since(t0).Seconds()
	for f := range e.funcs {
		e.res.Funcs = append(e.res.Funcs, f.String())
	}
	sort.Strings(e.res.Funcs)
	return e.res
}

func (e *Explorer) merge(pr *PathResult) {
	r := e.res
	r.Paths++
	switch pr.Status {
	case "ok":
		r.PathsOK++
	case "abort":
		r.PathsAborted++
	case "panic":
		r.PathsPanic++
	}
	if pr.Symbolic {
		r.PathsSymbolic++
	}
	r.Obligations += pr.Obligations
	r.Discharged += pr.Discharged
	r.ConcreteTrue += pr.ConcreteTrue
	if len(r.Violations) < 20 {
		r.Violations = append(r.Violations, pr.Violations...)
	}
	for _, s := range pr.Inconclusive {
		if len(r.Inconclusive) < 20 {
			r.Inconclusive = append(r.Inconclusive, s)
		}
	}
	for k, v := range pr.Covers {
		r.Covers[k] += v
	}
	r.IfConv += pr.IfConv
	r.Forks += pr.Forks
	r.Concretizations += pr.Concretizations
	r.UnknownKept += pr.UnknownKept
	r.Steps += pr.Steps
	if pr.PCSample != "" && len(r.PCSamples) < 3 {
		r.PCSamples = append(r.PCSamples, pr.PCSample)
	}
}

func decString(d []Decision) string {
	s := ""
	for _, x := range d {
		switch x.Kind {
		case 'b':
			if x.Val == 1 {
				s += "T"
			} else {
				s += "F"
			}
		case 'c':
			s += fmt.Sprintf("[%d]", x.Val)
		case 'o':
			s += "[?]"
		}
	}
	return s
}

func (e *Explorer) runPath(sol *Solver, decs []Decision) (pr *PathResult, newWork [][]Decision, funcs map[*ssa.Function]bool) {
	in := newInterp(e.prog, e.base, e.cfg)
	in.sol = sol
	in.decs = append([]Decision(nil), decs...)
	in.res = &PathResult{Covers: map[string]int{}}
	in.funcsSeen = map[*ssa.Function]bool{}
	in.replaceFn = e.replace
	in.concParams = e.concParams
	if e.maxSeconds > 0 {
		in.deadline = time.Now().Add(time.Duration(e.maxSeconds) * time.Second)
	}
	pr = in.res
	sol.BeginPath()
	defer sol.EndPath()
	defer func() {
		pr.Steps = in.steps
		// non-trivial: the path carries symbolic inputs (it stands for a set of
		// inputs decided by the solver / the simplifier), not only case splits
		pr.Symbolic = len(in.modelVars()) > 0
		newWork = in.newWork
		funcs = in.funcsSeen
		if r := recover(); r != nil {
			switch x := r.(type) {
			case pathAbort:
				pr.Status = "abort"
			case engineErr:
				pr.Status = "error"
				pr.Inconclusive = append(pr.Inconclusive, x.msg)
			case *goPanic:
				pr.Status = "panic"
				in.recordPanic(x)
			default:
				pr.Status = "error"
				pr.Inconclusive = append(pr.Inconclusive, fmt.Sprintf("engine crash: %v\n%s", r, debug.Stack()))
			}
			return
		}
		pr.Status = "ok"
		if len(in.pc) > 0 && pr.PCSample == "" {
			s := ""
			for i, t := range in.pc {
				if i >= 6 {
					s += " ∧ …"
					break
				}
				if i > 0 {
					s += " ∧ "
				}
				ts := t.String()
				if len(ts) > 160 {
					ts = ts[:160] + "…"
				}
				s += ts
			}
			pr.PCSample = s
		}
	}()
	in.callFunction(e.fn, nil, nil)
	return
}

func (in *Interp) modelVars() []*Term {
	var vs []*Term
	for _, n := range in.nondets {
		if n.term != nil && n.term.op == OpVar {
			vs = append(vs, n.term)
		}
	}
	return vs
}

func (in *Interp) nondetsWithModel(m map[string]uint64) []NondetRec {
	out := make([]NondetRec, len(in.nondets))
	for i, n := range in.nondets {
		out[i] = NondetRec{Tag: n.Tag, Kind: n.Kind, W: n.W, Val: n.Val}
		if n.term != nil {
			if n.term.op == OpVar {
				out[i].Val = m[n.term.name]
			} else if n.term.IsConst() {
				out[i].Val = n.term.val
			}
		}
	}
	return out
}

// solveFull decides sat(pc ∧ extra) with the primary solver and the portfolio.
func (in *Interp) solveFull(extra *Term, wantModel bool) (Result, map[string]uint64) {
	var vars []*Term
	if wantModel {
		vars = in.modelVars()
	}
	r, m := in.sol.Check(extra, vars)
	if r != Unknown {
		return r, m
	}
	for _, es := range portfolio {
		r, m = OneShot(es, in.pc, extra, vars, time.Duration(in.cfg.FallbackMs)*time.Millisecond)
		if r != Unknown {
			return r, m
		}
	}
	return Unknown, nil
}

func (in *Interp) assertion(cond *Term, msg string) {
	pr := in.res
	if in.concrete {
		if !cond.IsConst() {
			in.fail("symbolic assertion in concrete mode")
		}
		in.obs(fmt.Sprintf("assert:%s=%v", msg, cond.val == 1))
		return
	}
	if cond.IsTrue() {
		pr.ConcreteTrue++
		return
	}
	pr.Obligations++
	r, m := in.solveFull(in.ctx.Not(cond), true)
	switch r {
	case Unsat:
		pr.Discharged++
	case Sat:
		pr.Violations = append(pr.Violations, Violation{Kind: "assert", Msg: msg, Where: in.where(), Nondets: in.nondetsWithModel(m), Decs: decString(in.decs)})
	default:
		pr.Inconclusive = append(pr.Inconclusive, "solver unknown on assertion: "+msg+" @ "+in.where())
	}
	// After a violated assertion the path continues under the assertion when that
	// is still possible; when the assertion fails for every input of the path the
	// path simply goes on (so later cover points and obligations are still seen).
	if cond.IsFalse() {
		return
	}
	if r != Unsat {
		if in.feasible(cond) == Unsat {
			return
		}
	}
	in.assumeTerm(cond)
}

func (in *Interp) recordPanic(gp *goPanic) {
	pr := in.res
	if in.concrete {
		in.obs("panic")
		return
	}
	pr.Obligations++
	r, m := in.solveFull(nil, true)
	switch r {
	case Sat:
		pr.Violations = append(pr.Violations, Violation{Kind: "panic", Msg: gp.kind, Where: gp.pos, Nondets: in.nondetsWithModel(m), Decs: decString(in.decs)})
	case Unsat:
		pr.Discharged++ // path was infeasible after all
	default:
		pr.Inconclusive = append(pr.Inconclusive, "solver unknown on panic path: "+gp.kind+" @ "+gp.pos)
	}
}

// runConcrete executes the harness with all nondets forced; returns the observation log.
func runConcrete(prog *ssa.Program, base *Base, fn *ssa.Function, cfg *RunConfig, replace map[string]*ssa.Function, forced []NondetRec) (log []string, err string) {
	in := newInterp(prog, base, cfg)
	in.concrete = true
	in.forced = forced
	in.res = &PathResult{Covers: map[string]int{}}
	in.replaceFn = replace
	defer func() {
		log = in.obsLog
		if r := recover(); r != nil {
			switch x := r.(type) {
			case pathAbort:
			case engineErr:
				err = x.msg
			case *goPanic:
				log = append(log, "panic")
			default:
				err = fmt.Sprintf("engine crash: %v\n%s", r, debug.Stack())
			}
		}
	}()
	in.callFunction(fn, nil, nil)
	return
}

var _ = os.Stderr
var _ = types.Typ

#!/usr/bin/env python3
"""Regenerates the generated part of DESIGN.md (between the GENERATED markers):
per-property harness table and the seeded-regression kill matrix."""
import json, glob, os, re
ROOT='/verif'
reg=json.load(open(f'{ROOT}/harness/registry.json'))
out=[]
out.append('### 0.8 Harnesses per property (generated from harness/registry.json)\n')
out.append('| id | harnesses (quick tier unless marked) | quick bounds |')
out.append('|---|---|---|')
for pid in sorted(reg):
    hs=[]
    for h in reg[pid]['harnesses']:
        n=h['func'].replace('VerifH_','')
        if h.get('tiers')==['thorough']: n+=' (thorough only)'
        hs.append('`'+n+'`')
    out.append(f"| {pid} | {', '.join(hs)} | {reg[pid]['bounds']['quick']} |")
out.append('')
rows=[]
for d in sorted(glob.glob(f'{ROOT}/seeded/C*')):
    m=json.load(open(os.path.join(d,'meta.json')))
    det=m.get('detection') or {}
    rows.append((os.path.basename(d), (m.get('summary') or '')[:150].replace('|','/').replace('\n',' '), det.get('result','not run'), (det.get('first_violation') or det.get('first_inconclusive') or '')))
if rows:
    out.append('### 0.9 Seeded regressions (independent sub-agents) and which check catches them (generated)\n')
    out.append('Each was produced by a sub-agent that saw only the property text and a scratch worktree, and was kept only after confirmation in a scratch worktree (demo fails with the patch, passes without, pinned suite passes with the patch). `dev/seeded.py detect` applies the patch to a scratch worktree of /repo HEAD and runs the registered `./check <id> quick` against it (VERIF_REPO). m1/m2: first round; m3/m4: second round, produced after the whole-file harnesses existed.\n')
    out.append('| seeded id | change | result of ./check <id> quick | caught by |')
    out.append('|---|---|---|---|')
    for sid,summ,res,viol in rows:
        m=re.search(r'#\s*(VerifH_\w+)', viol)
        by=m.group(1).replace('VerifH_','') if m else ''
        out.append(f'| {sid} | {summ} | {res} | {by} |')
    nd=sum(1 for r in rows if r[2]=='DETECTED')
    out.append(f'\nDetected: {nd} of {len(rows)}. The misses are discussed in 0.10.\n')
gen='\n'.join(out)+'\n'
p=f'{ROOT}/DESIGN.md'; s=open(p).read()
B='<!-- GENERATED TABLES BEGIN -->'; E='<!-- GENERATED TABLES END -->'
if B in s:
    s=s[:s.index(B)+len(B)]+'\n'+gen+s[s.index(E):]
else:
    marker='---------------------------------------------------------------------------\n\n## 1. The technique in this code base'
    s=s.replace(marker, B+'\n'+gen+E+'\n\n'+marker,1)
open(p,'w').write(s)
print('tables written', len(rows), 'seeded rows')

#!/usr/bin/env python3
"""Confirm seeded regressions produced by independent sub-agents and run the
property's check against each.

usage: dev/seeded.py confirm [ids...]   # confirm in a scratch worktree, store under /verif/seeded/
       dev/seeded.py detect  [ids...]   # apply each stored patch to /repo, run ./check <prop> quick, undo
"""
import glob, json, os, re, shutil, subprocess, sys, time

SEED = os.environ.get("SEED_DIR", "/tmp/seed2")
OUT = "/verif/seeded"
WT = "/tmp/seedchk"
ENV = dict(os.environ, GOFLAGS="-mod=mod", GOPROXY="off")


def sh(cmd, cwd=None, timeout=1800):
    p = subprocess.run(cmd, shell=True, cwd=cwd, env=ENV, capture_output=True, text=True, timeout=timeout)
    return p.returncode, (p.stdout + p.stderr)


def candidates(ids):
    res = []
    for d in sorted(glob.glob(f"{SEED}/C*.out/m*")):
        prop = os.path.basename(os.path.dirname(d)).split(".")[0]
        sid = f"{prop}-{os.path.basename(d)}"
        if ids and sid not in ids and prop not in ids:
            continue
        if os.path.exists(os.path.join(d, "patch.diff")) and os.path.exists(os.path.join(d, "meta.json")):
            res.append((sid, prop, d))
    return res


def demo_cmd(meta):
    run = meta.get("demo_run", "")
    m = re.search(r"-run\s+(\S+)", run)
    name = m.group(1) if m else "Test"
    ddir = meta.get("demo_dir", ".").strip("/") or "."
    return f"go test -tags purego -vet=off -count=1 -run '{name}' ./{ddir}", ddir


def confirm(ids):
    os.makedirs(OUT, exist_ok=True)
    sh(f"git -C /repo worktree remove --force {WT}")
    rc, o = sh(f"git -C /repo worktree add --detach {WT}")
    if rc != 0:
        print(o)
        sys.exit(1)
    try:
        for sid, prop, d in candidates(ids):
            dest = os.path.join(OUT, sid)
            if os.path.exists(os.path.join(dest, "meta.json")) and not ids:
                continue
            meta = json.load(open(os.path.join(d, "meta.json")))
            cmd, ddir = demo_cmd(meta)
            demo_src = os.path.join(d, "demo_test.go")
            demo_dst = os.path.join(WT, ddir, "zz_seed_demo_test.go")
            log = {"id": sid}
            sh("git checkout -- . && git clean -fdq", cwd=WT)
            rc, o = sh(f"git apply --3way {d}/patch.diff", cwd=WT)
            if rc != 0:
                rc, o = sh(f"git apply {d}/patch.diff", cwd=WT)
            if rc != 0:
                log["status"] = "patch does not apply to the current tree: " + o[-300:]
                print(sid, log["status"][:120])
                continue
            sh("git reset -q", cwd=WT)  # 3way stages the result
            rcb, ob = sh("go build ./... && go build -tags purego ./...", cwd=WT)
            shutil.copy(demo_src, demo_dst)
            rc1, o1 = sh(cmd, cwd=WT)
            os.remove(demo_dst)
            rc2, o2 = sh(f"python3 /tmp/seedtools/baseline_check.py {WT}")
            sh("git checkout -- . && git clean -fdq", cwd=WT)
            shutil.copy(demo_src, demo_dst)
            rc3, o3 = sh(cmd, cwd=WT)
            os.remove(demo_dst)
            ok = rcb == 0 and rc1 != 0 and rc2 == 0 and rc3 == 0
            log.update({"builds": rcb == 0, "demo_fails_with_patch": rc1 != 0, "existing_suite_passes_with_patch": rc2 == 0,
                        "demo_passes_without_patch": rc3 == 0, "confirmed": ok})
            print(sid, "CONFIRMED" if ok else "REJECTED", {k: v for k, v in log.items() if k != "id"})
            if not ok:
                with open(os.path.join("/verif/work", f"seedreject_{sid}.log"), "w") as f:
                    f.write(ob[-2000:] + "\n---demo with patch\n" + o1[-3000:] + "\n---baseline\n" + o2[-2000:] + "\n---demo clean\n" + o3[-3000:])
                continue
            os.makedirs(dest, exist_ok=True)
            # store the patch as it applies to the current tree
            sh(f"git apply --3way {d}/patch.diff || git apply {d}/patch.diff", cwd=WT)
            sh("git reset -q", cwd=WT)
            rc, diff = sh("git diff", cwd=WT)
            open(os.path.join(dest, "patch.diff"), "w").write(diff)
            sh("git checkout -- .", cwd=WT)
            shutil.copy(demo_src, os.path.join(dest, "demo_test.go"))
            m2 = {"property": prop, "summary": meta.get("summary"), "files": meta.get("files"), "needs": meta.get("needs"),
                  "demo_dir": ddir, "demo_run": cmd,
                  "what_i_ran": "scratch worktree of /repo HEAD: git apply patch; go build (default and -tags purego); demo placed in demo_dir -> FAILS; /tmp/seedtools/baseline_check.py (pinned suite, 27473 tests) -> all pass; patch reverted; demo -> PASSES",
                  "confirmed_at_repo_commit": sh("git -C /repo rev-parse --short HEAD")[1].strip(),
                  "author": "independent sub-agent given only the property text and a scratch worktree"}
            json.dump(m2, open(os.path.join(dest, "meta.json"), "w"), indent=1)
    finally:
        sh(f"git -C /repo worktree remove --force {WT}")


def detect(ids):
    """Runs ./check <prop> quick against a scratch worktree of /repo with the seeded
    patch applied (VERIF_REPO); /repo itself and /verif/evidence are not touched."""
    DET = "/tmp/seeddet"
    sh(f"git -C /repo worktree remove --force {DET}")
    rc, o = sh(f"git -C /repo worktree add --detach {DET}")
    if rc != 0:
        print(o)
        sys.exit(1)
    rows = []
    env = dict(ENV, VERIF_REPO=DET, VERIF_EVIDENCE_DIR="/verif/work/evidence_seeded")
    try:
        for dest in sorted(glob.glob(f"{OUT}/C*")):
            sid = os.path.basename(dest)
            prop = sid.split("-")[0]
            if ids and sid not in ids and prop not in ids:
                continue
            meta = json.load(open(os.path.join(dest, "meta.json")))
            reg = json.load(open("/verif/harness/registry.json"))
            if prop not in reg:
                meta["detection"] = {"check": None, "result": "property not claimed"}
                json.dump(meta, open(os.path.join(dest, "meta.json"), "w"), indent=1)
                continue
            sh("git checkout -- . && git clean -fdq", cwd=DET)
            rc, o = sh(f"git apply {dest}/patch.diff", cwd=DET)
            if rc != 0:
                print(sid, "patch no longer applies")
                continue
            t0 = time.time()
            p = subprocess.run(f"./check {prop} quick", shell=True, cwd="/verif", env=env, capture_output=True, text=True, timeout=7200)
            rc, o = p.returncode, p.stdout + p.stderr
            viol = [l for l in o.splitlines() if l.startswith("VIOLATION")]
            inc = [l for l in o.splitlines() if l.startswith("INCONCLUSIVE")]
            res = "DETECTED" if rc == 1 and viol else ("INCONCLUSIVE" if rc == 2 else "MISSED")
            meta["detection"] = {"check": f"./check {prop} quick (scratch worktree with the patch, VERIF_REPO)", "exit": rc, "result": res, "wall_s": round(time.time() - t0, 1),
                                 "first_violation": (viol[0][:300] if viol else None), "first_inconclusive": (inc[0][:300] if inc else None)}
            print(sid, res, f"exit={rc}", (viol[0][:160] if viol else (inc[0][:160] if inc else "")), flush=True)
            json.dump(meta, open(os.path.join(dest, "meta.json"), "w"), indent=1)
            rows.append((sid, res))
    finally:
        sh(f"git -C /repo worktree remove --force {DET}")
    print("summary:", rows)


if __name__ == "__main__":
    mode = sys.argv[1]
    ids = sys.argv[2:]
    if mode == "confirm":
        confirm(ids)
    else:
        detect(ids)

#!/bin/sh
# dev helper: run.sh <pkg-suffix|root> <Harness> [max_seconds] [tier] [extra json fields]
# e.g. dev/run.sh encoding/delta VerifH_C04_deltaInt32 120
cd /verif
PKG="github.com/parquet-go/parquet-go"
[ "$1" != "root" ] && PKG="$PKG/$1"
MS=${3:-300}
TIER=${4:-0}
EXTRA=${5:-}
mkdir -p work/dump
rm -f work/dump/*
cat > work/spec_dev.json <<EOF
{"repo":"${REPO:-/repo}","harness_dir":"/verif/harness","tier":$TIER,"workers":${VERIF_WORKERS:-12},"no_native":${NO_NATIVE:-true},"harnesses":[{"pkg":"$PKG","func":"$2","max_seconds":$MS $EXTRA}]}
EOF
GOSYM_DUMP=${DUMP:+/verif/work/dump} ${GOSYM:-./bin/gosym} -spec work/spec_dev.json -out work/out_dev.json 2>&1 | tail -${TAIL:-3}
python3 - <<'EOF'
import json
o=json.load(open('/verif/work/out_dev.json'));r=o['results'][0]
for x in (r['inconclusive'] or [])[:6]: print("INCONCL", x[:400])
for x in (r['violations'] or [])[:4]: print("VIOL", x['kind'], x['msg'], x['where'][-80:], [(n['tag'],n['val']) for n in x['nondets']][:40], x.get('reproduced_natively'), x.get('replay_note'))
tv=r.get('translator_validation')
if tv: print("VALID", {k:v for k,v in tv.items() if k!='samples'}, (tv.get('samples') or [''])[0][:300] if tv.get('mismatches') else '')
print({k:r[k] for k in ('paths','paths_completed','obligations','discharged','assertions_concretely_true','if_conversions','concretizations','ssa_steps')})
print(o['solver'])
if r.get('init_errors'): print("INIT", r['init_errors'][:3])
EOF

package main

import (
	"fmt"
	"go/ast"
	"go/types"
	"os"
	"sort"

	"golang.org/x/tools/go/packages"
)

func main() {
	cfg := &packages.Config{Mode: packages.LoadAllSyntax, Dir: "/repo", BuildFlags: []string{"-tags=purego"}}
	pkgs, err := packages.Load(cfg, os.Args[1:]...)
	if err != nil {
		panic(err)
	}
	count := map[string]int{}
	for _, p := range pkgs {
		for _, f := range p.Syntax {
			ast.Inspect(f, func(n ast.Node) bool {
				switch x := n.(type) {
				case *ast.SelectorExpr:
					if sel, ok := p.TypesInfo.Selections[x]; ok {
						if fn, ok := sel.Obj().(*types.Func); ok && fn.Pkg() != nil && fn.Pkg().Path() == "reflect" {
							count[fn.FullName()]++
						}
					} else if obj, ok := p.TypesInfo.Uses[x.Sel]; ok {
						if fn, ok := obj.(*types.Func); ok && fn.Pkg() != nil && fn.Pkg().Path() == "reflect" {
							count[fn.FullName()]++
						}
					}
				}
				return true
			})
		}
	}
	var ks []string
	for k := range count {
		ks = append(ks, k)
	}
	sort.Strings(ks)
	for _, k := range ks {
		fmt.Println(count[k], k)
	}
}

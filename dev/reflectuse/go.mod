module verif/reflectuse

go 1.24.9

require golang.org/x/tools v0.29.0

require (
	golang.org/x/mod v0.22.0 // indirect
	golang.org/x/sync v0.10.0 // indirect
)

#!/usr/bin/env python3
"""Single source for harness/registry.json and MANIFEST.json (run after editing)."""
import json, os
ROOT = os.path.dirname(os.path.dirname(os.path.abspath(__file__)))
P = "github.com/parquet-go/parquet-go"
E = P + "/encoding/"

def H(pkg, func, **kw):
    d = {"pkg": pkg, "func": func}
    d.update(kw)
    return d

COMMON_ASSUME = [
    "claims are about the purego build (-tags purego,verif): assembly kernels have no SSA and are outside every claim",
    "each harness is decided only inside the bounds stated in coverage.bounds; larger inputs are outside the claim",
    "engine model of the Go semantics (gosym) is trusted; it is cross-checked on every run by translator validation (random concrete inputs through the natively compiled harness and through the engine must give identical observation logs)",
]

REG = {}

REG["C01"] = dict(
    harnesses=[H(P, "VerifH_C01_nullScanInt32"), H(P, "VerifH_C01_nullScanWordBoundary"), H(P, "VerifH_C01_dictionaryFallbackBuffer"), H(P, "VerifH_C01_pageBodyFraming"), H(P, "VerifH_C01_columnBufferRoundTrip"), H(P, "VerifH_C08_rowGroupRowsSeekRead"), H(E + "delta", "VerifH_C04_deltaInt32", max_seconds={"quick": 400, "thorough": 2400})],
    explanation="Kernel-wise decision of the write->read path. Decided by the solver on the real code: (K1) the null-run scanner of the typed optional write path (writeRowsFuncOfOptional closure + nullIndex + bitmap): for every vector of n values, the ranges handed to the column writer are contiguous, in order, cover every row once, and carry definition level d+1 exactly for non-zero rows, including windows that cross the 64-row bitmap word boundary after all-null / all-set / alternating prefixes. (K6) row assembly: rowGroupRows over real column buffers/pages returns each row with all its values and levels for flat and repeated columns (shared with C08). (K7) after a dictionary column falls back to PLAIN the buffer that takes the following values is configured for the same levels as the regular buffer (values with every level combination read back intact from both). (K5, shared with C04) the DELTA_BINARY_PACKED int32 encode/decode round trip for unrestricted values (first value and deltas at the int32 extremes included), one of the encodings every written value passes through; the other encodings are decided under C04. (K2) page-body framing: the writer's encodeLevels + prependLevelsToDataPageV1 (v1: length-prefixed sections) resp. back-to-back v2 sections against the reader's decodeLevelsV1/decodeLevelsV2 with the RLE level encoding: repetition levels, definition levels and the value bytes come back unchanged for every level vector. (K4) column buffer -> page -> value reader for every physical type (boolean bit-packing, int32, int64, int96, float, double, byte-array offsets, fixed-len 3 and the 16-byte be128 buffer): values written in two batches are read back bit-identical with any read batch size. The end-to-end file round trip (reflection, Thrift, codecs, I/O) is outside the claim; bounds/indexes are decided under C05.",
    bounds={"quick": "n<=6 symbolic int32 rows; word-boundary windows: concrete prefix 60..63 rows x3 patterns + 2..4 symbolic rows; framing: max rep level 0..2, max def level 0..3, 1..4 values, 0..4 value bytes; column buffers: 1..3 values, byte arrays of 0..2 bytes, read batch 1..3", "thorough": "n<=10; windows up to 6 symbolic rows; column buffers 1..4 values"},
    outside=["whole-file round trip through reflection, Thrift and codecs", "row batching (K3), page decode accounting (K5: decodeDataPage with dictionary indexes and decompression)"],
)
REG["C03"] = dict(
    harnesses=[H(P, "VerifH_C01_nullScanInt32"), H(P, "VerifH_C03_nullScanKinds"), H(P, "VerifH_C03_nullScanIntKinds")],
    explanation="Which positions are null on the typed ingestion path: the run scanner of writeRowsFuncOfOptional with the null-index kernels selected by nullIndexFuncOf for int8, int16, uint16, int32, uint32, int, int64, uint64 (values whose low bytes are zero included), float32, float64 (-0.0 and NaN included), bool, [16]byte and string. For every input vector in the bound a row is written non-null exactly when its Go value is non-zero, which is the shredding the pre-shredded Value path stores. The reflection-driven paths (Writer.Write(any), Schema.Deconstruct) are outside the claim.",
    bounds={"quick": "n<=6 int32; n<=4 for float64/bool/[16]byte/string", "thorough": "n<=10 int32"},
    outside=["reflection paths (Deconstruct/Reconstruct, Write(any), RowBuffer)", "AVX null kernels", "repeated/nested shredding comparison (DESIGN K2,K3,K5,K6 not built yet)"],
)
REG["C04"] = dict(
    harnesses=[
        H(E + "rle", "VerifH_C04_rleLevels"), H(E + "rle", "VerifH_C04_rleBoolean"), H(E + "rle", "VerifH_C04_rleInt32"),
        H(E + "plain", "VerifH_C04_plainByteArray"), H(E + "plain", "VerifH_C04_plainNumeric"), H(E + "plain", "VerifH_C04_plainFixed"),
        H(E + "bitpacked", "VerifH_C04_bitpackedLevels"),
        H(E + "bytestreamsplit", "VerifH_C04_bssFloatDouble"), H(E + "bytestreamsplit", "VerifH_C04_bssIntFixed"),
        H(E + "delta", "VerifH_C04_deltaInt32", max_seconds={"quick": 400, "thorough": 2400}),
        H(E + "delta", "VerifH_C04_deltaInt64", tiers=["thorough"], max_seconds=2400),
        H(E + "delta", "VerifH_C04_deltaByteArray"), H(E + "delta", "VerifH_C04_deltaLengthByteArray"),
    ],
    explanation="One harness per (encoding, type): the real Encode* runs on symbolic values into a destination buffer pre-filled with symbolic garbage; the result is decoded (a) by the real Decode* and (b) by a decoder written in the harness from parquet-format/Encodings.md that shares no code with the library; both must return the input bit-for-bit for every value assignment in the bound. Run structure (RLE runs vs bit-packed groups), varint lengths and miniblock bit widths become case splits; payload bits stay symbolic. DELTA_BINARY_PACKED uses an assume-guarantee step: on entry to the miniblock packer the solver proves the packer's precondition (every value fits the chosen width) and the simplifier then uses that proved fact.",
    bounds={"quick": "RLE levels: widths {1,2,3,7,8}, n in {0..10,15,16,17}; RLE int32: widths {1,2,7,8,9,31,32}, n in {0..9,16,17}; RLE boolean: 0..4 bytes; BIT_PACKED: widths 1..8, n<=9; PLAIN: <=3 values; BYTE_STREAM_SPLIT: <=4 values, FLBA size<=5; DELTA_BINARY_PACKED int32: n<=2 unrestricted values, all 33 bit widths; DELTA_BYTE_ARRAY / DELTA_LENGTH_BYTE_ARRAY: <=3 strings of 0..2 symbolic bytes (shared prefixes and empty values arise by case split)",
            "thorough": "RLE levels: all widths 1..8, n<=25; RLE int32: all widths 1..32; RLE boolean: <=6 bytes; BSS <=8 values; DELTA_BINARY_PACKED int32 n<=3 and int64 n<=2"},
    outside=["assembly kernels and the asm-vs-portable comparison", "RLE_DICTIONARY wrapper (width byte + RLE int32), DELTA_BYTE_ARRAY for fixed-len values", "inputs longer than the bounds (block/miniblock boundaries 32/128 of DELTA_BINARY_PACKED are not reached)"],
)
REG["C05"] = dict(
    harnesses=[H(P, f) for f in ["VerifH_C05_truncMax", "VerifH_C05_boundsInt", "VerifH_C05_boundsFloat", "VerifH_C05_boundsBE128", "VerifH_C05_boundsBytes", "VerifH_C05_indexerInt32", "VerifH_C05_levelHistograms", "VerifH_C06_byteArrayIndexerOrder"]],
    explanation="Page bounds through the real page types (int32/int64/uint32/uint64 in signed resp. unsigned order, float/double with NaN skipped unless all values are NaN, 16-byte big-endian, fixed-len and variable byte arrays): min <= v <= max for every value and the bounds are attained. Column-index truncation: truncated min/max still bound the value for every byte string and size limit in the bound. Column indexer: entries equal the page statistics given, null pages and null counts exact, and a claimed ascending/descending order is true of the non-null pages (int32, byte-array and fixed-len indexers). Level histograms: every page histogram counts exactly that page's levels whatever the reused buffer held, and the column histogram is the sum over pages.",
    bounds={"quick": "<=4 values per page (3 for float/BE128, 2 for byte arrays of <=2 bytes); truncation: values <=4 bytes, limits 1..3; indexer: <=3 pages", "thorough": "<=6 values; indexer <=4 pages"},
    outside=["SIMD min/max kernels", "geospatial statistics", "copied statistics, sorting metadata, concatenated indexes (DESIGN K6-K8 not built yet)"],
)
REG["C06"] = dict(
    harnesses=[H(P, "VerifH_C06_searchInt32"), H(P, "VerifH_C06_searchByteArray"), H(P, "VerifH_C06_byteArrayIndexerOrder"), H(P, "VerifH_C06_findNullsFirst")],
    explanation="The column index is produced inside the harness by the real indexer from P pages of symbolic statistics (null pages contribute zero Values exactly as the writer does), so IsAscending is whatever the writer would record. For every probe value and every hidden page p whose bounds contain it, Search returns r <= p; r < NumPages implies page r is non-null and its bounds contain the value; r == NumPages only if no page's bounds contain the value. int32 and byte-array columns (with and without bound truncation); fixed-len and byte-array indexers claim an order only if it holds for minima and maxima; Find with the documented nulls-first comparator obeys the same contract.",
    bounds={"quick": "int32: P<=4 pages, any null mask; byte arrays of 2 bytes: P<=2, truncation limit 0/1", "thorough": "int32 P<=5; byte arrays P<=3"},
    outside=["multiColumnIndex (concatenated row groups)", "descending binary search does not exist in the code (linear search is used)"],
)
REG["C07"] = dict(
    harnesses=[H(P + "/bloom", "VerifH_C07_filterAlgebra")] + [H(P, f) for f in ["VerifH_C07_bloomInt", "VerifH_C07_bloomFloat", "VerifH_C07_bloomBoolean", "VerifH_C07_bloomBytes"]],
    explanation="(K1) split-block filter algebra with a symbolic 64-bit key and arbitrary prior filter contents: an inserted key is found by SplitBlockFilter.Check and by CheckSplitBlock on the serialised bytes, and stays found after further inserts. (K2) for every physical type the value bytes go through the real page type, Type.Encode with the writer's splitBlockEncoding and the purego xxhash, and the reader-side Value.hash + CheckSplitBlock finds every written value (boolean, int32, int64, int96, float, double, byte array, fixed-len 16 and 5).",
    bounds={"quick": "K1: 1..2 blocks; K2: 1 block, <=2 values per page (booleans <=9), byte arrays <=5 bytes", "thorough": "K1: 1..3 blocks"},
    outside=["gzip-compressed filter bytes", "AVX kernels", "sizing/strategy selection in the writer (DESIGN K3 not built yet)"],
)

REG["C20"] = dict(
    harnesses=[H(P + "/compress", "VerifH_C20_pooledGlue"), H(P + "/compress/lz4", "VerifH_C20_lz4Decode")],
    explanation="Only the library's glue around the codecs is decidable; the compressors are foreign loops. (K1) compress.Compressor/Decompressor with pooled model streams obeying the documented Reset contract: for every history of round trips, failing decodes and empty inputs in the bound, with every destination capacity, Decode(Encode(x)) == x for symbolic x and a failed decode does not affect later calls. (K2) the LZ4_RAW decode loop with the block decoder replaced by its contract (valid block decodes iff the buffer has room, expansion <= 255x; invalid block always rejected): Decode returns the original for valid blocks and terminates with an error for invalid ones. Counterexamples of K2 are re-enacted natively against the real pierrec/lz4 decoder (scenario VerifS_C20_lz4Decode).",
    bounds={"quick": "K1: histories of 2 operations, payload <=4 symbolic bytes, dst capacities 0..8; K2: block <=5 bytes, original <=600 bytes in 5 length classes, dst capacity in {0,1,16,64}, at most 16 decoder calls", "thorough": "K1: histories of 3 operations"},
    outside=["the compressors themselves (snappy, gzip, brotli, zstd, lz4 block functions)", "concurrent use of one codec value", "zstd encoder/decoder pools"],
    assumptions=["contract stub for github.com/pierrec/lz4/v4.UncompressBlock (see harness c20_lz4.go)"],
)

REG["C13"] = dict(
    harnesses=[H(P, "VerifH_C13_crcDetects", max_seconds={"quick": 300, "thorough": 1800}), H(P, "VerifH_C13_lazyDictionary"), H(P, "VerifH_C13_crcZeroHole"), H(P, "VerifH_C08_columnPagesAcrossRowGroups")],
    explanation="(K1) writerBuffers.crc32 (writer) against FilePages.readPage (reader) on a symbolic body and an arbitrary non-zero flip mask: the solver shows that the branch 'stored checksum == checksum of the altered bytes' is infeasible, so readPage returns an error wrapping ErrCorrupted and no data, while the unaltered body is accepted (CRC-32 modelled by its bitwise definition). (K2) the lazy dictionary load used after a seek (FilePages.readDictionary) with the Thrift header decode and the dictionary decoder replaced by recording stubs: an altered body is never handed to the decoder and an ErrCorrupted error is returned; counterexamples are re-enacted natively on a real file through SeekToRow. (K3) the complement of K1's precondition: a body whose CRC-32 is 0 is indistinguishable from 'no checksum' in this implementation and its corruption is accepted; this is an open known finding. (K2') the file-level column reader reports a corruption error of any row group's page reader instead of moving on to the next row group (shared with C08, replayed natively with a flipped byte in a real file).",
    bounds={"quick": "K1: body of 1..3 bytes split over the level/value buffers, any non-zero flip mask; K2: body of 1..2 bytes; K3: 4-byte body", "thorough": "K1: 1..4 bytes; K2: 1..3 bytes"},
    outside=["decompressor behaviour on corrupted input", "encrypted pages (C18)", "bodies longer than the bound (CRC-32 detects all bursts <= 32 bits by construction, not re-proved here)"],
    assumptions=["hash/crc32 is modelled by the bitwise reflected CRC-32 definition (poly from the table)", "K2: stubs for thrift.Decoder.Decode (yields the stored page header) and Column.decodeDictionary (recorder)"],
)

REG["C19"] = dict(
    harnesses=[H(P + "/variant", "VerifH_C19_primitives"), H(P + "/variant", "VerifH_C19_containers"), H(P + "/variant", "VerifH_C19_wideDictionaryObject")],
    explanation="variant.Encode -> decodeValue/Decode on the real code: every primitive kind (null, bool, int8..int64, float, double, date, the five time/timestamp kinds, uuid, decimal4/8/16 with symbolic scale, short and long strings around the 63/64-byte boundary, binary) with symbolic payload decodes to a value Equal to the original (floats bit-exact) and the decoder consumes exactly the encoded length; small containers (arrays, objects with unsorted field names, nesting depth 3) of symbolic integers round-trip, also when the metadata dictionary holds 300 names and the object's greatest field name has the smallest id (two-byte field ids).",
    bounds={"quick": "one primitive per path with fully symbolic payload; strings of length {0,1,3,63,64,65} with 3 symbolic ASCII bytes; binary <=4 bytes; 4 container shapes with 3 symbolic leaves", "thorough": "same"},
    outside=["shredding (variant_shredded_*.go, convert_variant.go): schema- and reflection-driven, not decided", "non-ASCII UTF-8 strings", "reflection-based Marshal"],
    assumptions=["sort.Slice is modelled by a stable insertion sort using the caller's less function"],
)

REG["C10"] = dict(
    harnesses=[H(P, "VerifH_C10_optionalSort"), H(P, "VerifH_C10_nullOrderingLaws"), H(P, "VerifH_C10_repeatedSort"), H(P, "VerifH_C10_comparatorColumns"), H(P, "VerifH_C10_bufferMultiColumnSort")],
    explanation="(K1) optionalColumnBuffer over a real int64 column buffer: rows with symbolic keys and every null mask are written in two batches, sorted with the standard library's sort.Sort (executed from SSA) and materialised with Page(); the page holds every written value exactly once with its level (values carry distinct tags), nulls are where the null ordering says and non-null values are ascending/descending as configured. (K2) nullsGoFirst/nullsGoLast are strict weak orders (irreflexive, asymmetric, transitive, transitive incomparability) for symbolic values and all definition-level triples. (K3) repeatedColumnBuffer.Less equals the lexicographic order over all values of the two rows, and sorting keeps every row intact and in that order. (K4) Schema.Comparator on a schema with a repeated column before the sorting columns: for rows whose repeated column holds 0..2 values, the comparison is decided by the sorting columns only (first key ascending/descending, second optional key with nulls first/last as tie-break). (K4b) a real Buffer (NewBuffer with two sorting columns: an optional leaf nested in an optional group with nulls first/last, then a required key) filled through WriteRows and sorted with sort.Sort: every adjacent pair read back is in Schema.Comparator order for the same columns (nulls of any depth tie and the second key decides) and the rows are a permutation of the input.",
    bounds={"quick": "K1: n<=3 rows, 2 batches, both null orderings, ascending/descending; K2: 3 values x 27 level triples; K3: 2 rows of 1..2 values", "thorough": "K1: n<=4; K3: 3 rows"},
    outside=["column_buffer_amd64.s fill kernel", "SortingWriter (temp file + merge + WriteRowGroup glue)", "RowBuffer", "repeated rows containing nulls"],
)

REG["C09"] = dict(
    harnesses=[H(P, "VerifH_C09_merge2"), H(P, "VerifH_C09_mergeK"), H(P, "VerifH_C09_mergeRuns"), H(P, "VerifH_C09_runLength"), H(P, "VerifH_C09_dedupe"), H(P, "VerifH_C09_disjointSegments"), H(P, "VerifH_C09_refineCutLookups")],
    explanation="MergeRowReaders on model row readers that serve sorted inputs with symbolic int64 keys (sortedness is the only assumption) in chosen chunkings, drained with chosen batch sizes: for every key assignment the merged output is sorted, has exactly the rows of the inputs, and keeps each input's rows in their original relative order (rows carry concrete (input, position) tags the comparator ignores). Covers the 2-way reader (mergedRowReader2 incl. the galloping run emission after a streak) and the k-way tournament tree (mergedRowReader, 3..4 inputs incl. empty ones), runLength against a linear scan for both tie modes, and DedupeRowReader (first row of every run of equal keys, order kept, across batch boundaries). (K5) overlappingRowGroups with rowGroupRangeOfSortedColumns over model row groups (symbolic first/last rows, symbolic valid page bounds, two sorting columns with every direction combination, the real Schema.Comparator): every row group lands in exactly one segment, and row groups in different segments are really ordered (last row of the earlier <= first row of the later), so concatenating segments keeps the output sorted. (K6) range refinement inside a segment: newCutLookups over a model paged row group (real offset-index/column-index interfaces, symbolic valid page bounds and page row counts, ascending and descending sorting column): every row at or after cutAbove(key) sorts strictly after key, every row before cutBelow(key) sorts strictly before key, and cuts fall on page boundaries, so a range cut out of a row group never moves a row across a key it must stay on one side of.",
    bounds={"quick": "refine: <=3 pages of 1..2 rows, 8-bit keys; 2-way: inputs of <=3 rows, 1-row or unbounded source chunks, batch 1..3; k-way: 3 inputs of <=2 rows, batch 2/4; runs: 6+2 rows, batch 3..8; runLength: window <=6; dedupe: <=4 rows, chunks 0..2, batch 1..3; segments: 2 row groups, keys (a,b) of 8-bit range, 4 direction combinations", "thorough": "2-way second input <=4 rows; k-way 4 inputs; dedupe <=5 rows"},
    outside=["the rest of merge_refine.go (refineSegment's choice of cut keys and the rowRangeRowGroup views)", "merges over real files and WriteRowGroup(merged)", "multi-column and nullable keys, descending order"],
)

REG["C08"] = dict(
    harnesses=[H(P, "VerifH_C08_filePagesSeekRead", max_paths={"quick": 400000, "thorough": 4000000}, max_seconds={"quick": 300, "thorough": 2400}), H(P, "VerifH_C08_mergedRowsSeek"), H(P, "VerifH_C08_columnPagesAcrossRowGroups"), H(P, "VerifH_C08_rowGroupRowsSeekRead")],
    explanation="(K1) the seek/read state machine of FilePages (SeekToRow, ReadPage, serveLastPage/lastPage caching, skip accounting, buffered-stream repositioning) is executed on a real byte stream through the real io.SectionReader, bufio.Reader and readPage; only the Thrift page-header decode and the data-page body decoder are replaced by stubs (the header stub yields the header of the page that starts at the current stream position and flags a misaligned stream). Every history of seeks and reads in the bound is explored, with and without an offset index: the rows returned after the last SeekToRow(k) are rows k, k+1, ... and the stream stays aligned on page boundaries. Counterexamples are replayed literally through the public API on a real file whose pages have the model's row counts. (K5) SeekToRow on the rows of a merged row group followed by reads of any batch size returns the rows from the target on, rejects backward seeks and terminates. (K3) the row reader of a row group (rowGroupRows + columnChunkValueReader over a flat and a repeated real column buffer, value buffers of 2..3 values): for every history of SeekToRow / ReadRows with batch sizes 1..2 the rows returned are rows k, k+1, ... with all their values and levels. (K4) the file-level column reader (columnPages) chains the page readers of all row groups (modelled, one-row pages): after any history of seeks and reads the pages continue at the expected row across row-group boundaries and an error from a row group's reader is reported, not skipped; replayed literally on a real multi-row-group file.",
    bounds={"quick": "K1: 1..3 pages of 1..2 rows, histories of 4 operations (seek to any row incl. the end, or read), offset index present/absent; K5: <=6 rows, batch 1..4, 2 operations", "thorough": "K1: pages of 1..3 rows, 5 operations; K5: 3 operations"},
    outside=["asynchronous read mode (C15)", "encrypted ordinals (C18)", "v1 pages that continue a row from the previous page, dictionary pages in the stream", "page slicing on its own (K2) and range views (rangePages, multi row group) not built"],
    assumptions=["K1: stubs for thrift.Decoder.Decode (header of the page at the current stream position) and FilePages.readDataPageV2 (model page identified by the body bytes)"],
)

REG["C17"] = dict(
    harnesses=[H(P, "VerifH_C17_resetRestoresWriter"), H(P, "VerifH_C17_bloomResizeZeroes"), H(P, "VerifH_C17_columnWriterReset")],
    explanation="(K2) concrete-prefix harness on the real writer: newWriter wires the column writers of a two-column nested schema, the real writeRowGroup records one or two row groups (page flushing and the file header are stubbed: no page is buffered), the real writer.reset runs, and every piece of state that feeds the next file's footer (column paths, encodings, types, column-chunk metadata, schema elements) equals a freshly constructed writer's; a row group recorded after Reset names its columns. Counterexamples are re-enacted natively: the same rows through a fresh writer and through Reset must give identical bytes. (K1, part) a bloom-filter buffer retained across row groups is zeroed and correctly sized by resizeBloomFilter whatever it held; ColumnWriter.reset returns every per-row-group field (level histograms for every level shape, counters, chunk sizes/offsets/statistics, encoding stats, page locations, column indexer, filter) to its initial value from arbitrary symbolic contents.",
    bounds={"quick": "schema {a int64, b{c optional int32}}, 1..2 row groups before Reset; bloom: retained capacity 0..2 blocks of symbolic bytes, 1..60 values", "thorough": "same"},
    outside=["purego vs assembly builds (assembly has no SSA)", "goroutine identity, encryption nonces", "dictionary reset (K3), key-value metadata order (K5), generic field-by-field reset frame (K1) not built yet", "dirty reusable encode buffers are covered by the garbage-dst clause of the C04 harnesses"],
    assumptions=["K2: stubs for ColumnWriter.Flush, flushFilterPages, totalRowCount and writer.writeFileHeader (no page data is written)"],
)

REG["C18"] = dict(
    harnesses=[H(P, "VerifH_C18_aadInjective"), H(P, "VerifH_C18_envelope"), H(P, "VerifH_C18_ordinalsThroughSeeks")],
    explanation="AES-GCM is abstracted as an ideal AEAD (Open(k,n,Seal(k,n,p,a),a)=p, anything else fails, ciphertext bytes are fresh symbols). (K1) makeAAD is injective over the module shapes the writer and reader use (footer; five column-level modules with (row group, column); four page-level modules with (row group, column, page)) for all int16 ordinals and equal prefix/file id: two different modules never share an AAD, so a module transplanted to another page, column or row group is opened with a different AAD. (K2) encryptModule/decryptModule framing: round trip for symbolic plaintext, key, nonce and AAD; truncation at any point, any change of any single byte (length word included), another module's AAD or a wrong key yield an error and never a panic; trailing bytes are ignored. Counterexamples are re-enacted natively with the real AES-GCM. (K3) ordinal agreement: the FilePages state machine of C08 with decryption state, the page decryption replaced by a model that authenticates with the page ordinal the reader currently holds: after every history of seeks and reads the reader opens the page at stream position i with ordinal i, the one the writer sealed it with; replayed literally on a real encrypted file.",
    bounds={"quick": "AAD prefix 0..2 bytes, file id 2 bytes; plaintext 0..3 symbolic bytes, 16-byte symbolic key, 2-byte AAD", "thorough": "same"},
    outside=["AES-GCM itself, key retrieval", "secrecy of statistics in the footer (needs the whole writer)", "writer-side ordinal assignment (only the reader side of the agreement is executed; the writer seals page i of a chunk with ordinal i by construction of its page counter)", "footer signing (signFooter/verifyFooterSignature)"],
    assumptions=["ideal-AEAD stubs for crypto/aes.NewCipher, crypto/cipher.NewGCM and crypto/rand.Reader (arbitrary nonce bytes)"],
)

REG["C14"] = dict(
    harnesses=[H(P, "VerifH_C14_sinkFaults"), H(P, "VerifH_C14_fileHeader"), H(P + "/internal/memory", "VerifH_C14_pageBufferWriteTo"), H(P, "VerifH_C14_openPrelude")],
    explanation="(K1) the writer's sink wrapper offsetTrackingWriter (Write, WriteString, ReadFrom through io.Copy) over a model sink that fails, or short-writes without an error, at any byte offset: for every history of three operations with symbolic data the tracked offset equals the bytes the sink accepted and every refused byte is visible to the caller (non-nil error, or the short count its callers turn into io.ErrShortWrite); writeFileHeader writes the magic once and reports a refusing sink; the chunked page buffer (internal/memory.Buffer) streams every buffered byte to the sink in order through WriteTo and reports a sink failure at any offset with an exact count. (K2) the prelude of OpenFile (magic, trailer, footer-length arithmetic, optimistic footer read) on a model io.ReaderAt over symbolic file bytes of every size 0..14 with an injected read fault: never a panic, never a successfully opened file, and a read error always surfaces; the Thrift footer decode is cut off by a stub. Counterexamples of K2 are re-enacted natively: every strict prefix of a real file is rejected and single failing ReadAt calls surface.",
    bounds={"quick": "K1: fault offset 0..9, 3 operations of 0..4 bytes; K2: file size 0..14 symbolic bytes (claimed footer length <=16), fault on ReadAt call 0..2 (error or short read), optimistic read on/off, two buffer sizes", "thorough": "same"},
    outside=["the ~40 write sites inside page, dictionary, bloom and footer writers", "'every strict prefix of every produced file is rejected' beyond the prelude (needs the real footer decode)", "bufio write buffer and page buffer pools"],
    assumptions=["K2: stub for thrift.Decoder.Decode (always fails: the footer is not decodable)", "footer length field of the symbolic file is assumed <= 16 to bound allocation"],
)

REG["C16"] = dict(
    harnesses=[H(P, "VerifH_C16_refcountProtocol"), H(P, "VerifH_C16_cloneIndependent"), H(P, "VerifH_C16_inputsUnmodified"), H(P, "VerifH_C16_rowBufferInputs")],
    explanation="(K2) reference counting of pooled page buffers (buffer.ref/unref, bufferPool.get/put, bufferedPage Retain/Release/Slice): for every history of operations in the bound the counts equal the number of holders and the contents stay while a holder remains (the pool's own panics on double put / non-zero count are reachable violations). (K3) Row.Clone / Value.Clone: cloned byte arrays equal the source, share no memory with it and are unaffected when the source buffer is overwritten; levels, column and kind are kept. (K4) the library does not modify caller input: optional and repeated column buffers' WriteValues, DedupeRowWriter.WriteRows, and RowBuffer.WriteRows (the caller's rows keep pointing at the caller's bytes and are unchanged by a later Reset and writes).",
    bounds={"quick": "K2: 3 operations; K3: byte arrays 0..3 bytes; K4: 1..3 values/rows", "thorough": "K2: 4 operations"},
    outside=["Read[T]/GenericReader.Read into Go values (reflection)", "values decoded from pooled page buffers surviving page release (DESIGN K1: needs the page decode path, not built)", "cross-goroutine pool reuse"],
)

REG["C02"] = dict(
    harnesses=[H(P, "VerifH_C17_columnWriterReset"), H(P, "VerifH_C02_pageAccounting", max_seconds=600), H(E + "thrift", "VerifH_C02_compactIntegers"), H(E + "thrift", "VerifH_C02_compactHeaders"), H(P, "VerifH_C02_reencodeRowBoundaries"), H(P, "VerifH_C02_rowGroupFileOffset")],
    explanation="Kernel-wise; the independent decoder is realised as reference functions written in the harness from the format specifications. (K1) ColumnWriter.recordPageStats on a dictionary page and up to three data pages with symbolic header sizes, body sizes and row/value/null counts: every page location's offset is the sum of the sizes of everything stored before it in the chunk, first_row_index is the sum of earlier rows, compressed_page_size is header+body, and the chunk totals and encoding statistics are the sums. (K1') the per-row-group state of a column writer (level histograms, counters, sizes, statistics) is returned to its initial value between row groups, so the metadata of a row group only describes that row group. (K2, part) the file_offset recorded for each row group is the offset of its first byte, after the magic, also when the first row group is written before Close (real newWriter/writeFileHeader/writeRowGroup, pages stubbed; replayed natively through Flush). (K4) Thrift compact protocol primitives, through which every header and the footer pass: zig-zag varints for i16/i32/i64, field headers (delta short form and long form), list headers (short and long form), binary values and the stop field are decoded from the written bytes by a decoder written from the thrift-compact spec and by the library's reader, for all values. (K5) encodings against spec decoders: see C04. (K6) the re-encode path hands only whole rows to the column writer, so pages begin on row boundaries (rows around the 1024-value batch of copyColumnValues).",
    bounds={"quick": "K1: optional dictionary page + 1..3 data pages, header sizes <256, body sizes <65536, rows/nulls <256; K4: all int16/int32/int64 values, field ids >=1, list sizes >=0, binary 0..3 bytes; K6: first row of 1016..1026 values, second 1..4, third 0..2", "thorough": "same"},
    outside=["footer and page-header struct serialisation (reflection-driven Thrift encoder)", "page and dictionary offsets inside writeRowGroup and the verbatim-copy splice (rest of K2), checksum ordering in writeDataPage (K3)", "whole-file parse by an independent reader", "bloom filter header, sorting metadata, key-value metadata"],
)
REG["C11"] = dict(
    harnesses=[H(P, "VerifH_C11_copyEligibility"), H(P, "VerifH_C02_reencodeRowBoundaries")],
    explanation="(K1) columnChunkIsCopyable / encodingStatsMatch on symbolic source metadata (physical type, codec, up to two encoding-stat entries of any page type and encoding, page-index offsets, encryption) against every destination configuration in the bound (3 types x 3 codecs x 3 encodings x dictionary x page version x encryption): the fast path declares a chunk copyable exactly when a reference predicate written from the property's list holds (same physical type, codec, data page version and value encoding on every data page, dictionary presence, no encryption on either side, page index present). (K6) the re-encode path only hands whole rows to the destination column writer (shared with C02).",
    bounds={"quick": "K1: <=2 encoding-stat entries, no bloom filter requested on the destination; K6 as in C02", "thorough": "same"},
    outside=["byte-level equality of the produced files (needs the whole writer)", "wrappers (dedup, converted, merged row groups) declining the fast path (K2), segment packing (K4), bloom filter sizing/copy on the fast paths (K5)", "bloomFilterIsCopyable (needs the bloom header decode)"],
)

REG["C12"] = dict(
    harnesses=[H(P, "VerifH_C12_flatSubsetAndAdd"), H(P, "VerifH_C12_addInsideRepeatedGroup"), H(P, "VerifH_C12_dropKeepsNestedLevels"), H(P, "VerifH_C12_addBesideNestedGroup")],
    explanation="Concrete-prefix harnesses: the real NewSchema/Convert build the conversion (column mapping, closest-sibling lookup, level tables) for source and target schemas chosen by case split, and the real conversion.Convert rewrites rows with symbolic payloads; the result is compared with a reference shredding written in the harness. (K1) flat source {a,b,c}: every non-empty subset, with or without an added optional or required leaf sorted between existing columns: common columns keep value and levels with the target's column index, the added column is null resp. zero. (K2) a leaf added inside a repeated group beside a leaf sibling mirrors the sibling's list structure for every list length 0..2 (null resp. zero per element, absent for an empty list). (K1') dropping a sibling column preserves the definition levels of a required leaf nested in two optional groups (its nulls come from the null enclosing groups). (K2') a leaf added inside a repeated group whose only other child is a group: open known finding (the added column gets one entry per row instead of one per element).",
    bounds={"quick": "flat: 7 subsets x 3 additions, 1..2 rows; repeated group: lists of 0..2 elements, 1..2 rows; nested sibling: lists of 0..3 elements", "thorough": "same"},
    outside=["value type conversions (convertToType)", "variant reconstruction", "Read[T] (reflection)", "MergeRowGroups with a schema, CopyRows decision", "deeper nesting, maps and LIST/MAP annotated groups"],
)

LEVEL_TEXT = "bounded symbolic execution of the real functions (go/ssa of the current /repo tree) with an SMT solver deciding every assertion for all inputs inside the stated bounds; counterexamples are replayed against the natively compiled code before being reported"

def main():
    reg = {}
    for pid, ent in REG.items():
        e = dict(ent)
        e["assumptions"] = COMMON_ASSUME + ent.get("assumptions", [])
        reg[pid] = e
    json.dump(reg, open(os.path.join(ROOT, "harness", "registry.json"), "w"), indent=1)
    props = [json.loads(l) for l in open(os.path.join(ROOT, "properties.jsonl"))]
    na_reason = json.load(open(os.path.join(ROOT, "dev", "not_applicable.json")))
    man = {
        "version": 1,
        "setup_cmd": "./setup.sh",
        "hooks": {
            "guard": "verif",
            "enable": "no hook commits: harnesses and intrinsics are injected with go/packages overlays (engine) and go build -overlay (native replay), built with -tags purego,verif",
            "baseline_off_cmd": "cd /repo && go test -mod=mod -vet=off -count=1 -timeout 25m ./...",
            "source_commits": [],
            "add_only": True,
        },
        "engines": [{"name": "gosym", "path": "engine/", "serves_properties": sorted(REG.keys()),
                     "kind_free_text": "SSA-level symbolic executor for Go written for this task (go/ssa front end, byte-addressable memory, path exploration by re-execution, z3 5.1 / z3 4.8.12 / cvc5 back ends, native replay and translator validation)"}],
        "checks": [],
        "not_applicable": [],
        "notes": "exit 0 = all obligations discharged; exit 1 = natively reproduced counterexample (VIOLATION line); exit 2 = inconclusive (never a pass). See DESIGN.md.",
    }
    for p in props:
        pid = p["id"]
        if pid in REG:
            man["checks"].append({
                "property_id": pid,
                "quick_cmd": f"./check {pid} quick",
                "thorough_cmd": f"./check {pid} thorough",
                "evidence_file": f"evidence/{pid}.json",
                "replay_cmd_template": f"./check {pid} --replay {{path}}",
                "engine": "gosym",
                "level_claimed": {"category": "other", "text": LEVEL_TEXT + ". " + REG[pid]["explanation"][:600], "design_ref": "DESIGN.md section 5, " + pid},
                "level_note": "Bounds: " + REG[pid]["bounds"]["quick"] + ". Outside the claim: " + "; ".join(REG[pid]["outside"]) + ". Trusted: gosym interpreter/memory model (translator-validated per run), go/ssa, z3/cvc5, engine intrinsics listed in evidence.",
                "technique": "solver-based bounded symbolic execution of the real Go code (SSA -> SMT-LIB2, z3/cvc5)",
            })
        else:
            man["not_applicable"].append({"property_id": pid, "reason": na_reason.get(pid, "check not built yet; see DESIGN.md section 5")})
    json.dump(man, open(os.path.join(ROOT, "MANIFEST.json"), "w"), indent=1)
    print("registry:", sorted(reg.keys()), "not_applicable:", [x["property_id"] for x in man["not_applicable"]])

if __name__ == "__main__":
    main()

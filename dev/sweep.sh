#!/bin/sh
# dev helper: run every registered check at the given tier, print one line each
cd /verif
TIER=${1:-quick}
for p in $(python3 -c "import json;print(' '.join(sorted(json.load(open('harness/registry.json')).keys())))"); do
  s=$(date +%s)
  ./check $p $TIER > work/sweep_$p.log 2>&1
  rc=$?
  e=$(date +%s)
  echo "$p exit=$rc $((e-s))s $(grep -c '^VIOLATION' work/sweep_$p.log) viol $(grep -c '^INCONCLUSIVE' work/sweep_$p.log) inconcl $(grep -c '^KNOWN-FINDING' work/sweep_$p.log) known | $(tail -1 work/sweep_$p.log | cut -c1-120)"
done

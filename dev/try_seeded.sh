#!/bin/sh
# dev helper: run one harness against a seeded change in a scratch worktree (never touches /repo)
# usage: dev/try_seeded.sh <seed-id> <pkg|root> <Harness> [secs]
WT=/tmp/wt_m
[ -d $WT ] || git -C /repo worktree add --detach $WT >/dev/null 2>&1
git -C $WT checkout -q --detach $(git -C /repo rev-parse HEAD) 2>/dev/null
git -C $WT checkout -- . ; git -C $WT clean -fdq
git -C $WT apply /verif/seeded/$1/patch.diff || exit 3
cd /verif
GOSYM=${GOSYM:-./bin/gosym-dev} REPO=$WT NO_NATIVE=false VERIF_WORKERS=${VERIF_WORKERS:-4} TAIL=1 dev/run.sh $2 $3 ${4:-600} 2>&1 | cut -c1-600 | grep -v "^{" | head -6
git -C $WT checkout -- .

#!/bin/sh
# Builds the symbolic executor from /verif/engine, offline, with the repository's own toolchain.
set -e
cd "$(dirname "$0")"
export GOFLAGS=-mod=mod GOPROXY=off
mkdir -p bin work replays evidence
(cd engine && go build -o ../bin/gosym .)
echo "gosym built"

#!/bin/sh
exit 0
